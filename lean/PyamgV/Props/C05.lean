import PyamgV.Props.Restate
import PyamgV.Proofs.ExtPyFlag
import PyamgV.Proofs.C05Sym
import PyamgV.Proofs.Pd
import PyamgV.Proofs.GsStrict
import PyamgV.Proofs.GsArrayRefine
import PyamgV.Proofs.Cycle
import PyamgV.Proofs.GsSweep
import PyamgV.Proofs.ExtC05RefineEx
import PyamgV.Proofs.ExtComplexGsEnergy
import PyamgV.Proofs.ExtC05BridgeEx
import PyamgV.Proofs.ExtC05BridgeCEx
import PyamgV.Proofs.ExtC05BridgeBool
import PyamgV.Proofs.ExtC05YEx
import PyamgV.Proofs.ExtC05YRefine
import PyamgV.Proofs.ExtC05YBlock
import PyamgV.Proofs.ExtC05ZEx
import PyamgV.Proofs.ExtC05ZBlkEx
import PyamgV.Proofs.ExtC05ZC
import PyamgV.Proofs.ExtC05ZY

/-! # C05 — a solver that reports symmetric smoothing yields a Hermitian preconditioner

Models (both run by the driver against the working tree on every check):

* `PyamgV.C05.flag` (`Model/C05Flag.lean`): the derivation of `ml.symmetric_smoothing` in
  `change_smoothers` as the code is now -- specifications `(name, kwargs)`, which level gets which
  entry of lists of different length, the per-level test with `_same_parameters`, rejection of
  unknown names / keywords; `cgWarns` is the consumer in `MultilevelSolver.solve`.
* `PyamgV.C05.denseM` (`Model/C05Cycle.lean`): the V/W-cycle preconditioner over exact rationals /
  Gaussian rationals built from the kernel models of C09 and the setup defaults (`smOf`).

Theorems: flag `True` ⇒ the per-level test holds for the pair installed on **every** level ⇒ (for
the smoothers of the cycle model) the installed post-smoother is the adjoint of the pre-smoother ⇒
the V- and W-cycle operators are symmetric; a symmetric non-expansive (strictly contracting) cycle
gives a positive semidefinite (definite) preconditioner. Real symmetric case (ordered fields).
Extension E47 (section "E47"): for the EXECUTED matrix `denseM`, flag `True` and the two proved Booleans `c05Check`,
`c05SpdCheck` evaluated on the concrete hierarchy ⇒ `denseM` is symmetric positive definite (`flag_denseM_spd_checked`). -/
namespace PyamgV.Props.C05
open PyamgV PyamgV.C05

/-! ## the decision table -/

/-- flag `True` ⇒ the per-level test `levelOk` holds for the pair installed on every smoothing
level, including the levels the code fills with the last entries without examining them -/
restate flag_sound := PyamgV.C05.flag_sound
/-- if `change_smoothers` returns at all, every installed specification names a registered smoother
and carries only keywords its setup function takes -/
restate flag_valid := PyamgV.C05.flag_valid
/-- one failing examined level makes the flag `False` (so the CG path warns) -/
restate flag_false_of_level := PyamgV.C05.flag_false_of_level
/-- what `levelOk` accepts: equal iteration counts and either a cf/fc pair with equal
`f_iterations`, `c_iterations`, or equal non-Krylov names with equal remaining options
(`_same_parameters`) that are by-definition symmetric or carry an admissible sweep pair -/
restate levelOk_shape := PyamgV.C05.levelOk_shape
/-- `_same_parameters` ⇒ every option other than `sweep` has the same value (or is absent) on both sides -/
restate sameParameters_lookup := PyamgV.C05.sameParameters_lookup

/-- the CG warning fires exactly when the flag is `False` -/
theorem cg_warns_iff (f : Bool) : cgWarns f true = true ↔ f = false := by
  cases f <;> simp [cgWarns]

/-! ## from the table to adjoint smoothers -/

/-- `levelOk a b` with both specifications inside the cycle model ⇒ the two smoothers are partners:
forward/backward or symmetric/symmetric Gauss–Seidel/SOR with the same ω, equal Jacobi, cf/fc Jacobi
with equal counts and equal ω, or none -/
restate levelOk_partner := PyamgV.C05.levelOk_partner
/-- partners have adjoint operators (A symmetric): Gauss–Seidel/SOR forward–backward with the same
ω, symmetric sweeps, Jacobi, cf/fc Jacobi, any iteration count -/
restate partner_adjoint := PyamgV.C05.partner_adjoint
/-- the backward Gauss–Seidel sweep is the adjoint of the forward sweep -/
restate sweepOp_reverse_adj := PyamgV.sweepOp_reverse_adj
/-- the same for SOR with one ω -/
restate sorSweep_reverse_adj := PyamgV.sorSweep_reverse_adj
/-- weighted (indexed) Jacobi is self-adjoint -/
restate jacOp_selfadj := PyamgV.C05.jacOp_selfadj
/-- `k` repetitions of an adjoint pair are an adjoint pair -/
restate powM_adjoint := PyamgV.IsAdj.powM
/-- `iterations` Gauss–Seidel/SOR passes (any sweep mode) are the linear iteration with operator `smOp` -/
restate gs_isLinIter := PyamgV.C05.gs_isLinIter
/-- a weighted Jacobi step over distinct rows (all rows, or the C or F points of cf/fc Jacobi) is the linear
iteration with operator `jacOp` -/
restate jac_isLinIter := PyamgV.C05.jac_isLinIter
/-- every smoother of the cycle model (Gauss–Seidel/SOR in the three sweep modes, Jacobi, cf/fc Jacobi,
none; any iteration counts) is the linear iteration `x + smOp (b − A x)` at the level of the kernel rows -/
restate sm_isLinIter := PyamgV.C05.sm_isLinIter
/-- `k` repetitions of a linear iteration are the linear iteration with operator `powM` -/
restate isLinIter_pow := PyamgV.IsLinIter.pow
/-- the executable array kernel (the one compared bit-exactly with relaxation.h) refines the
function-level sweep the operator statements are about -/
restate gaussSeidel_refines := PyamgV.gaussSeidel_refines

/-! ## the cycle -/

/-- the recursion of `__solve` (V, W, F) with linear-iteration smoothers is the linear iteration
`x + M (b − A x)` with the textbook operator `M = Mop` -/
restate cyc_isLinIter := PyamgV.cyc_isLinIter
/-- adjoint smoother pairs, `R = Pᵀ`, symmetric level matrices and coarsest solve ⇒ `Mop .V` and
`Mop .W` are self-adjoint -/
restate Mop_sym := PyamgV.Mop_sym
/-- **flag `True` ⇒ `⟨M u, v⟩ = ⟨u, M v⟩` for the V- and the W-cycle** (smoothers of the cycle model) -/
restate flag_cycle_symmetric := PyamgV.C05.flag_cycle_symmetric

/-- the same for the recursion of `__solve` itself: one V- or W-cycle is `x + M (b − A x)` with symmetric `M` -/
restate flag_cycle_preconditioner := PyamgV.C05.flag_cycle_preconditioner

/-! ## definiteness -/

/-- V/W/F cycles over non-expansive smoothers, Galerkin coarse matrices and an exact coarsest solve never
increase the energy norm of the error -/
restate cyc_nonexp := PyamgV.cyc_nonexp
/-- Gauss–Seidel sweeps in any order are non-expansive in the energy norm (A symmetric positive semidefinite) -/
restate gsSweep_nonexp := PyamgV.gsSweep_nonexp
/-- SOR sweeps in any order with `0 ≤ ω ≤ 2` are non-expansive -/
restate sorSweep_nonexp := PyamgV.sorSweep_nonexp
/-- a non-expansive linear iteration has `⟨M r, r⟩ ≥ 0` on the range of `A` -/
restate precond_psd := PyamgV.precond_psd
/-- `⟨M r, r⟩ > 0` where the iteration strictly reduces the energy of the error -/
restate precond_pd := PyamgV.precond_pd
/-- a full Gauss–Seidel sweep on an SPD matrix strictly reduces the energy of a non-zero error -/
restate gsSweep_strict_full := PyamgV.gsSweep_strict_full

/-! ## exact facts of the table that are recorded findings (they change when the code changes) -/

/-- finding `ne-nr-smoothers-flagged-symmetric`: the table accepts the normal-equation smoothers,
which are outside every adjointness theorem (and outside the cycle model) -/
theorem table_accepts_ne_nr :
    flag [⟨some "jacobi_ne", []⟩] [⟨some "jacobi_ne", []⟩] 2 = some true ∧
    flag [⟨some "gauss_seidel_ne", [("sweep", .str "forward")]⟩]
         [⟨some "gauss_seidel_ne", [("sweep", .str "backward")]⟩] 2 = some true ∧
    flag [⟨some "gauss_seidel_nr", [("sweep", .str "symmetric")]⟩]
         [⟨some "gauss_seidel_nr", [("sweep", .str "symmetric")]⟩] 2 = some true ∧
    smOf ⟨some "jacobi_ne", []⟩ = none := by decide

/-- since commit 47b225a a cf/fc pair with different `omega` loses the flag (it used to keep it:
former finding `cf-fc-pair-different-options`) -/
theorem table_rejects_cf_fc_with_different_omega :
    flag [⟨some "cf_jacobi", [("omega", .num 1)]⟩] [⟨some "fc_jacobi", [("omega", .num 2)]⟩] 2 = some false ∧
    flag [⟨some "cf_jacobi", [("omega", .num 2)]⟩] [⟨some "fc_jacobi", [("omega", .num 2)]⟩] 2 = some true := by
  decide

/-! ## non-vacuity -/

example : flag [⟨some "gauss_seidel", [("sweep", .str "forward")]⟩]
    [⟨some "gauss_seidel", [("sweep", .str "backward")]⟩] 3 = some true := by decide
example : flag [⟨some "gauss_seidel", []⟩] [⟨some "gauss_seidel", []⟩] 3 = some false := by decide
/-- equal names, different `omega`: not symmetric since commit 255ae68 -/
example : flag [⟨some "sor", [("sweep", .str "forward"), ("omega", .num 1)]⟩]
    [⟨some "sor", [("omega", .num 2), ("sweep", .str "backward")]⟩] 2 = some false := by decide
/-- a list that is too short is continued with its last entry, and that level is examined -/
example : flag [⟨some "jacobi", []⟩, ⟨some "gauss_seidel", []⟩] [⟨some "jacobi", []⟩] 2 = some false := by decide
example : flag [⟨some "jacobi", []⟩, ⟨some "gauss_seidel", []⟩] [⟨some "jacobi", []⟩] 1 = some true := by decide
example : flag [⟨some "gauss_seidel", [("omega", .num 1)]⟩] [⟨none, []⟩] 2 = none := by decide
example : smOf ⟨some "sor", [("sweep", .str "backward"), ("omega", .num 1)]⟩ = some (.gs 1 .backward 1) := by decide

/-- the hypotheses of `flag_cycle_symmetric` are satisfiable: a two-level hierarchy with
forward/backward Gauss–Seidel -/
example : WFFlag (K := Rat) LinearMap.id
    [⟨some "gauss_seidel", [("sweep", .str "forward")]⟩] [⟨some "gauss_seidel", [("sweep", .str "backward")]⟩] 0
    ⟨1, fun _ => 1, [], []⟩ [⟨1, fun _ => 1, [], []⟩]
    [{ A := LinearMap.id, P := LinearMap.id, R := LinearMap.id, pre := fun x _ => x, post := fun x _ => x,
       Qpre := smOp LinearMap.id (fun _ => 1) 1 [] [] (.gs 1 .forward 1),
       Qpost := smOp LinearMap.id (fun _ => 1) 1 [] [] (.gs 1 .backward 1) }] :=
  ⟨fun _ _ => rfl, by simp, by simp, ⟨.gs 1 .forward 1, .gs 1 .backward 1, by decide, by decide, rfl, rfl⟩,
   fun _ _ => rfl, fun _ _ => rfl⟩

/-! ## refinement: the executed cycle model `denseM` IS the textbook operator (extension E12,
Proofs/ExtC05Refine*.lean)

`denseM` / `solveLvl` / `applySm` / `solveDense` are the definitions of `Model/C05Cycle.lean` the driver
runs against the working tree (arrays, CSR, the kernel models of C09, the drivers of relaxation.py, the
recursion of `__solve`, Gauss–Jordan coarsest solve). Arrays are read as functions by `fn`. Scalars: any
ordered field with `ofRat = Rat.cast` (the driver's real case: `ℚ`, `ofRat = id`). -/

/-- every smoother of the cycle model, as executed (`gauss_seidel` / `sor` forward, backward, symmetric --
plain kernel iff `omega = 1` --, `jacobi`, `cf_jacobi` / `fc_jacobi` over `jacobi_indexed`, none; any
iteration counts), read through `fn` is the function-level smoother `smFn` of `sm_isLinIter` -/
restate executed_smoother_refines := PyamgV.C05.applySm_refines
/-- the executed recursion `solveLvl` (V and W, any depth) read through `fn` is the abstract recursion `cyc`
on the levels `absLvl L` (level operators `csrOp`, smoothers `smFn`, smoother operators `smOp`) -/
restate executed_cycle_refines := PyamgV.C05.solveLvl_refines
/-- the Gauss–Jordan coarsest solve: if `x` solves `A x = b`, the elimination returns `x` -/
restate coarse_solve_unique := PyamgV.C05.solveDense_unique
/-- … what it returns solves the system … -/
restate coarse_solve_sound := PyamgV.C05.solveDense_sound
/-- … and whether it succeeds does not depend on the right-hand side -/
restate coarse_solve_success_indep := PyamgV.C05.solveDense_indep
/-- one successful coarsest solve ⇒ the coarsest matrix has the right inverse `invOp` assembled from the
eliminations of the unit vectors, and that is the map the coarsest solve computes (`solveDense_csr`) -/
restate coarse_matrix_invertible_of_success := PyamgV.C05.coarseInv_of_success
restate coarse_solve_is_inverse := PyamgV.C05.solveDense_csr
/-- one executed cycle is `x + M (b − A x)`, `M = MopL S c levels` the textbook composition over `smOp` -/
restate executed_cycle_is_linear_iteration := PyamgV.C05.solveLvl_affine
/-- **`denseM` is the matrix of the textbook operator**: whenever it returns `M`, `M i j = (MopL (Ac⁻¹) c
levels e_j)_i` (shapes and one stored non-zero diagonal entry per row are the only hypotheses) -/
restate denseM_is_textbook_operator := PyamgV.C05.denseM_is_operator
/-- on a Galerkin hierarchy that operator is `Mop` of `cyc_isLinIter` / `Mop_sym` / `flag_cycle_symmetric` -/
restate denseM_is_Mop := PyamgV.C05.denseM_is_Mop
restate MopL_eq_Mop := PyamgV.MopL_eq_Mop
/-- `Mop_sym` without the Galerkin condition -/
restate MopL_sym := PyamgV.MopL_sym
/-- **flag `True` ⇒ the executed matrix `denseM` is symmetric** (V and W): model hierarchy carrying the
smoothers `change_smoothers(ml, pre, post)` installs, symmetric level matrices and coarsest matrix, `R = Pᵀ`,
one stored non-zero diagonal entry per row; no hypothesis on the coarsest solve, no per-instance check -/
restate flag_denseM_symmetric := PyamgV.C05.flag_denseM_symmetric
/-- non-vacuity: all hypotheses hold on the 3-point Poisson two-level hierarchy with forward / backward
Gauss–Seidel over `ℚ`, `ofRat = id` … -/
restate flag_denseM_symmetric_example := PyamgV.C05Ex.example_denseM_symmetric
/-- … where `denseM` does return a matrix (kernel evaluation) -/
restate flag_denseM_symmetric_example_runs := PyamgV.C05Ex.denseM5_isSome

/-! ## the bridge from the concrete CSR data (extension E23, Proofs/ExtC05Bridge*.lean)

`c05Check` (`Proofs/ExtC05BridgeCheck.lean`, import-free, evaluated by the driver op `ext_c05_symh` on every
hierarchy of the check) is a Boolean on the concrete arrays: non-empty lists, installed smoothers, shapes,
distinct C-points, one stored non-zero diagonal entry per row, in-range column indices, and the model's own
`hermitianHierarchy` (dense copies: `A = Aᵀ`, `R = Pᵀ`, `Ac = Acᵀ`). -/

/-- `shapedB = true → Shaped` -/
restate check_shaped_sound := PyamgV.C05.shaped_of_B
/-- `lvlOkB = true → LvlOK`: distinct C-points, one stored non-zero diagonal entry per row -/
restate check_lvlOK_sound := PyamgV.C05.lvlOK_of_B
/-- `installedB = true → Installed` -/
restate check_installed_sound := PyamgV.C05.installed_of_B
/-- with in-range column indices the CSR operator `csrOp` of the proofs is the dense copy `denseOfCsr` of the
model, for every vector -/
restate csrOp_is_dense_copy := PyamgV.C05.csrOp_dense
/-- dense copies with `Q = Pᵀ`, in-range indices ⇒ `csrOp Q` is the adjoint of `csrOp P` -/
restate adjoint_of_dense_transpose := PyamgV.C05.isAdj_of_dense
/-- the model's Boolean `hermitianHierarchy id` and in-range indices ⇒ the operator-level hypothesis `SymH` -/
restate hermitianHierarchy_sound := PyamgV.C05.symH_of_check
/-- `dataOk id = true` ⇒ `Shaped`, `LvlOK` on every level, `SymH` -/
restate check_data_sound := PyamgV.C05.dataOk_sound
/-- **flag `True` and `c05Check = true` ⇒ the executed matrix `denseM` is symmetric** (V and W): every
hypothesis is a Boolean evaluated on the concrete data -/
restate flag_denseM_symmetric_checked := PyamgV.C05.flag_denseM_symmetric_checked
/-- the instance the driver runs (`ℚ`, `ofRat = id`) -/
restate flag_denseM_symmetric_checked_rat := PyamgV.C05.flag_denseM_symmetric_checked_rat
/-- non-vacuity: the checker evaluates to `true` on the 3-point Poisson two-level hierarchy (kernel evaluation) … -/
restate check_example_true := PyamgV.C05Ex.check5
/-- … so its `denseM` is symmetric with no hypothesis left, … -/
restate check_example_symmetric := PyamgV.C05Ex.example_denseM_symmetric_checked
/-- … and it does reject a hierarchy with `R ≠ Pᵀ` -/
restate check_example_rejects := PyamgV.C05Ex.check5_rejects

/-! ## complex Hermitian hierarchies (extension E5: realification bridge, Proofs/ExtComplex*.lean)

A complex vector is a pair `(Re, Im) : V × V` over an ordered field, `Jop` is multiplication by `i`,
`cx Mr Mi` the C-linear operator `Mr + i Mi`, `cip e u v` the complex number `⟨u, v⟩ = Σ conj(uᵢ) vᵢ` as a
pair, `IsCAdj` Hermitian adjointness `⟨M u, v⟩ = ⟨u, N v⟩`. -/

/-- the real-linear maps commuting with `i` are exactly the `Mr + i Mi` -/
restate complex_isCLin_iff_cx := PyamgV.isCLin_iff_cx
/-- for C-linear `M`: `N = Mᴴ` iff `N` is the adjoint of the realification w.r.t. the realified Euclidean form -/
restate complex_isCAdj_iff_isAdj := PyamgV.isCAdj_iff_isAdj
/-- in parts: `N = Mᴴ` iff `Nr = Mrᵀ` and `Ni = −Miᵀ` -/
restate complex_isCAdj_cx_iff := PyamgV.isCAdj_cx_iff
/-- `M = Mᴴ` iff `Mr` symmetric and `Mi` antisymmetric iff the realification is self-adjoint -/
restate complex_herm_cx_iff := PyamgV.herm_cx_iff
/-- `cip (euc ℚ n)` on Gaussian-rational vectors is `Σ_{i<n} conj(xᵢ) yᵢ` -/
restate complex_cip_is_vdot := PyamgV.cip_euc_crat
/-- for Hermitian PSD `A`, `⟨w, A w⟩` is real and is the energy of the realified symmetric PSD form `cEnergy` -/
restate complex_energy_norm_same := PyamgV.cEnergy_en
/-- the cycle operator (V, W, F) of C-linear pieces is C-linear -/
restate complex_Mop_isCLin := PyamgV.Mop_isCLin
/-- **C-linear pieces, Hermitian level operators, post-smoother = (pre-smoother)ᴴ, `R = Pᴴ`, Hermitian coarsest
solve ⇒ `⟨M u, v⟩ = ⟨u, M v⟩` for the V- and the W-cycle operator** (`Mop_sym` through the bridge) -/
restate complex_Mop_hermitian := PyamgV.Mop_herm
/-- the same with every operator given by real and imaginary part; conclusion `M = Mr + i Mi`, `Mr` symmetric,
`Mi` antisymmetric -/
restate complex_Mop_hermitian_parts := PyamgV.Mop_herm_parts
/-- the recursion of `__solve` on such a hierarchy is `x + M (b − A x)` with C-linear Hermitian `M` -/
restate complex_cycle_preconditioner := PyamgV.ccycle_preconditioner
/-- `⟨M r, r⟩ ≥ 0` on the range of `A` for a cycle that is non-expansive in the complex energy norm -/
restate complex_precond_psd := PyamgV.cprecond_psd
/-- non-vacuity of `complex_Mop_hermitian_parts`: a two-level hierarchy over `[[2, i], [−i, 2]]` -/
restate complex_example_hierarchy := PyamgV.ExC.example_pwfs

/-! ## the executed complex cycle model (extension E23, Proofs/ExtC05BridgeF*.lean, ExtC05BridgeC*.lean)

The refinement chain of the real case re-proved **over an arbitrary field** (namespace `PyamgV.CF`: the same
executable definitions `denseM`, `solveLvl`, `applySm`, `solveDense`, the same operator definitions `MopL`,
`smOp`; the order instances of the original statements are not used by their proofs), and Hermitian
adjointness over a field with involution (`StarRing`; Gaussian rationals: `star = CRat.conj`) for the form
`sdot n u v = Σ_{i<n} star(u_i) v_i`. -/

/-- every smoother of the cycle model is the linear iteration `x + smOp (b − A x)`, any field -/
restate field_sm_isLinIter := PyamgV.CF.C05.sm_isLinIter
/-- the executed smoothers read through `fn` are the function-level smoothers `smFn`, any field -/
restate field_executed_smoother_refines := PyamgV.CF.C05.applySm_refines
/-- the executed recursion `solveLvl` read through `fn` is the abstract recursion `cyc`, any field -/
restate field_executed_cycle_refines := PyamgV.CF.C05.solveLvl_refines
/-- Gauss–Jordan coarsest solve, any field: returns the solution if there is one, … -/
restate field_coarse_solve_unique := PyamgV.CF.C05.solveDense_unique
/-- … what it returns solves the system, … -/
restate field_coarse_solve_sound := PyamgV.CF.C05.solveDense_sound
/-- … and one success makes the coarsest matrix invertible -/
restate field_coarse_matrix_invertible_of_success := PyamgV.CF.C05.coarseInv_of_success
/-- **`denseM` over any field (in particular the complex model over `CRat`) is the matrix of the textbook
operator** `MopL (Ac⁻¹) c levels` over `smOp` (replaces the per-instance comparison `M == mopMat` as the
proved path for complex data) -/
restate field_denseM_is_textbook_operator := PyamgV.CF.C05.denseM_is_operator
/-- conjugate symmetry of `sdot` -/
restate sdot_conj := PyamgV.CF.sdot_conj
/-- adjoint smoother pairs, Hermitian level matrices, `R = Pᴴ`, Hermitian coarsest solve ⇒ `MopL .V`, `MopL .W`
self-adjoint for `sdot` -/
restate MopL_hermitian := PyamgV.CF.MopL_symS
/-- the backward sweep is the Hermitian adjoint of the forward sweep (Hermitian `A`, real diagonal) -/
restate sweepOp_reverse_hermitian_adj := PyamgV.CF.sweepOp_reverse_adjS
/-- partners (`levelOk_partner`) have Hermitian-adjoint operators: Gauss–Seidel / SOR forward–backward,
symmetric sweeps, Jacobi, cf/fc Jacobi, with the rational `ω` of the specifications -/
restate partner_hermitian_adjoint := PyamgV.CF.partner_adjointS
/-- the stored diagonal of a Hermitian CSR operator is real -/
restate hermitian_diagonal_real := PyamgV.CF.C05.diagFn_real
/-- **flag `True` ⇒ the executed matrix `denseM` over a field with involution is Hermitian** (operator-level
hypotheses `SymHS`, `LvlOK`, `Shaped`) -/
restate flag_denseM_hermitian := PyamgV.CF.C05.flag_denseM_hermitian
/-- the model's Boolean `hermitianHierarchy star` and in-range indices ⇒ `SymHS` -/
restate hermitianHierarchy_sound_complex := PyamgV.CF.C05.symHS_of_check
/-- **flag `True` and `c05Check star = true` ⇒ `denseM` is Hermitian**, any field with involution -/
restate flag_denseM_hermitian_checked := PyamgV.CF.C05.flag_denseM_hermitian_checked
/-- the model's scalar embedding `CRat.ofRat` is the rational cast of the field `CRat` -/
restate crat_ofRat_is_cast := PyamgV.CRat.ofRat_eq_cast
/-- **the instance the driver runs for complex data** (`denseM CRat.ofRat`, checker `c05Check CRat.conj`, op
`ext_c05_symh c`): flag `True` and checker `true` ⇒ `M i j = conj (M j i)` -/
restate flag_denseM_hermitian_checked_crat := PyamgV.CF.C05.flag_denseM_hermitian_checked_crat
/-- the Boolean `herm` the driver prints for `c05_cyc r …` (`M == mconjT id M n n`) is `true` when the flag is
`True` and `c05Check id` is `true` (what `props/c05.py` enforces on every evaluated hierarchy) -/
restate driver_herm_bool_real := PyamgV.C05.herm_bool_rat
/-- the same for `c05_cyc c …` (`M == mconjT CRat.conj M n n`) and `c05Check CRat.conj` -/
restate driver_herm_bool_complex := PyamgV.C05.herm_bool_crat
/-- non-vacuity: on `A = [[2, i], [−i, 2]]`, `P = [1, −i]ᵀ`, `R = Pᴴ`, `Ac = [6]` with forward / backward
Gauss–Seidel the checker evaluates to `true` (kernel evaluation), … -/
restate complex_check_example_true := PyamgV.C05ExC.checkC
/-- … `denseM` returns a matrix, … -/
restate complex_check_example_runs := PyamgV.C05ExC.denseMC_isSome
/-- … which is Hermitian with no hypothesis left; … -/
restate complex_check_example_hermitian := PyamgV.C05ExC.example_denseM_hermitian
/-- … with `R = Pᵀ` in the place of `Pᴴ` the checker says `false` -/
restate complex_check_example_rejects := PyamgV.C05ExC.checkC_rejects

/-! ## the other smoother families the flag treats as symmetric (extension E36, Proofs/ExtC05Y*.lean)

Extended executed model `PyamgV.C05Y.denseMY` (`Model/ExtC05YCycle.lean`, driver op `ext_c05y_cyc`, compared with
`aspreconditioner` on every run): `chebyshev` / `richardson` (coefficients of the installed closures through a per-level
oracle), `block_jacobi` / `block_gauss_seidel` with block size > 1 (diagonal blocks inverted exactly), `jacobi_ne`,
`gauss_seidel_ne`, `gauss_seidel_nr`.  Operator level: `V` any module over an ordered field, `sweepM A Qs` the
composition of a list of steps, `powM` = `iterations`. -/

/-- a sweep over steps with self-adjoint operators (matrix rows, blocks, subdomains), run backwards, is the adjoint of
the forward sweep -/
restate sweep_reverse_adjoint := PyamgV.C05Y.sweepM_reverse_adj
/-- forward followed by backward (`sweep='symmetric'`) is self-adjoint -/
restate sweep_symmetric_selfadjoint := PyamgV.C05Y.sweepM_symmetric_selfadj
/-- **polynomial family**: `p(A)` with the same real coefficients before and after is an adjoint pair, any `iterations` -/
restate poly_pair := PyamgV.C05Y.poly_pair
/-- the exact inverse of a symmetric (block) diagonal is symmetric -/
restate inverse_selfadjoint := PyamgV.C05Y.inv_selfadj
/-- **`block_jacobi`** with the same `omega` before and after is an adjoint pair -/
restate blockJacobi_pair := PyamgV.C05Y.blockJacobi_pair
/-- a block / subdomain sweep `x ← x + I S Iᵀ (b − A x)` is the linear iteration with operator `sweepM` of the block steps -/
restate blockSweep_isLinIter := PyamgV.C05Y.subSweep_isLinIter
/-- the exact inverse of the symmetric diagonal block `Iᵀ A I` is symmetric -/
restate local_inverse_selfadjoint := PyamgV.C05Y.local_inverse_selfadj
/-- **forward / backward `block_gauss_seidel` (or Schwarz) sweeps are an adjoint pair** … -/
restate blockSweep_pair := PyamgV.C05Y.blockSweep_pair
/-- … and the symmetric sweep is self-adjoint -/
restate blockSweep_symmetric := PyamgV.C05Y.blockSweep_symmetric
/-- `levelOk a b` with both specifications in the extended model (one level: one coefficient oracle) ⇒ the installed
smoothers are partners: same family, same parameters (coefficients, block size, `omega`), same iteration count, and an
admissible sweep pair -/
restate levelOk_partnerY := PyamgV.C05Y.levelOk_partnerY
/-- partners outside the normal-equation families have adjoint operators when the family's steps are symmetric -/
restate partnerY_adjoint := PyamgV.C05Y.partnerY_adjoint
/-- **flag `True`, no normal-equation smoother installed ⇒ `⟨M u, v⟩ = ⟨u, M v⟩` for the V- and the W-cycle**
(smoothers of the extended model) -/
restate flag_cycle_symmetricY := PyamgV.C05Y.flag_cycle_symmetricY
/-- decision-table facts for the extended families (kernel evaluation) -/
restate table_extended_families := PyamgV.C05Y.table_extended_families
/-- non-vacuity on the executed model: block Gauss–Seidel forward / backward, block Jacobi (block size 2) and a
polynomial smoother on the 4-point Poisson hierarchy are adjoint pairs and `denseMY` is symmetric -/
restate extended_model_symmetric := PyamgV.C05YEx.extended_model_symmetric


/-! ### refinement: the executed smoothers of the extended model are these operators

`vec` reads an array as a function, `csrLin` / `bsrLin` are the operators of the CSR level matrix / of its BSR copy,
`blkQ i` applies the `i`-th stored inverse block to the `i`-th block of a vector. -/

/-- **the executed `chebyshev` / `richardson` smoother** (`applySmY`, i.e. `pyPolynomial` of C09) always returns and is
`x + powM A p(A) k (b − A x)` with `p(A) = polyOp` -/
restate executed_poly_smoother := PyamgV.C05Y.executed_poly_smoother
/-- … whose operator is self-adjoint for a symmetric level matrix: equal coefficients before and after are an adjoint
pair on the executed model -/
restate executed_poly_selfadj := PyamgV.C05Y.executed_poly_selfadj
/-- one block row of the executed `block_gauss_seidel` kernel is `x + blkQ i (b − B x)` -/
restate executed_bgs_step := PyamgV.C05Y.bgsStep_vec
/-- **the executed `block_gauss_seidel` driver** (forward, backward, symmetric; `iterations = k`; inverse blocks with
`Dinv_i B_ii = I`) always returns and is `x + powM B (sweepM B (dirL sweep steps)) k (b − B x)`: the operator `smOpY` of
`partnerY_adjoint` -/
restate executed_bgs_smoother := PyamgV.C05Y.executed_bgs_smoother
/-- `blkQ i` is symmetric when the stored inverse block is -/
restate blkQ_selfadj := PyamgV.C05Y.blkQ_selfadj
/-- **executed forward / backward block Gauss–Seidel are an adjoint pair, executed symmetric block Gauss–Seidel is
self-adjoint** (symmetric level operator, symmetric inverse blocks) -/
restate executed_bgs_pair := PyamgV.C05Y.executed_bgs_pair
/-- **the executed `block_jacobi` driver** is `x + powM B (ω D⁻¹) k (b − B x)` … -/
restate executed_bjac_smoother := PyamgV.C05Y.executed_bjac_smoother
/-- … with a self-adjoint operator -/
restate executed_bjac_selfadj := PyamgV.C05Y.executed_bjac_selfadj

/-! ### normal-equation smoothers: the precise reason for finding `ne-nr-smoothers-flagged-symmetric` -/

/-- what a symmetric cycle needs, in terms of error propagators: `Q_post = Q_preᵀ` makes `I − Q_pre A`, `I − Q_post A`
adjoint for the ENERGY form `⟨A·,·⟩` -/
restate adjoint_pair_is_energy_adjoint := PyamgV.C05Y.adj_pair_energy
/-- forward / backward `gauss_seidel_ne` (same `omega`, any `iterations`): the error propagators are adjoint for the
EUCLIDEAN form instead (no symmetry of `A` needed) -/
restate ne_sweep_err_adj := PyamgV.C05Y.ne_sweep_err_adj
/-- symmetric `gauss_seidel_ne`: Euclidean-self-adjoint error propagator -/
restate ne_sweep_symmetric_err_selfadj := PyamgV.C05Y.ne_sweep_symmetric_err_selfadj
/-- forward / backward `gauss_seidel_nr`: the RESIDUAL propagators `I − A Q` are adjoint for the Euclidean form -/
restate nr_sweep_res_adj := PyamgV.C05Y.nr_sweep_res_adj
/-- `jacobi_ne`: `I − ω Aᵀ Dinv A` is self-adjoint for the Euclidean form -/
restate jacobi_ne_err_selfadj := PyamgV.C05Y.jacobi_ne_err_selfadj
/-- the same for the partners the decision table accepts (`levelOk_partnerY`), error … -/
restate partnerY_err_adjoint := PyamgV.C05Y.partnerY_err_adjoint
/-- … and residual form -/
restate partnerY_res_adjoint := PyamgV.C05Y.partnerY_res_adjoint
/-- a smoother operator symmetric in both senses commutes with `A` (which `ω Aᵀ Dinv` and the Kaczmarz sweeps do not) -/
restate both_adjoint_commute := PyamgV.C05Y.both_adjoint_commute
/-- the flag is `True` for `jacobi_ne`/`jacobi_ne`, `gauss_seidel_ne` and `gauss_seidel_nr` forward/backward, and the
extended model installs these smoothers -/
restate ne_flagged := PyamgV.C05YEx.ne_flagged
/-- the 2×2 hierarchy `A = [[2,1],[1,3]]`, `P = [1,1]ᵀ`, `R = Pᵀ`, `A_c = [7]` is exactly symmetric and Galerkin -/
restate ne_hierarchy_symmetric := PyamgV.C05YEx.ne_hierarchy_symmetric
/-- `jacobi_ne` on it: `Q = [[2/5, 1/10], [1/5, 3/10]]` … -/
restate jacobi_ne_Q := PyamgV.C05YEx.jacobi_ne_Q
/-- … **not an adjoint pair, V- and W-cycle matrices not symmetric, error propagator Euclidean-symmetric** (kernel evaluation
of the executed model) -/
restate jacobi_ne_counterexample := PyamgV.C05YEx.jacobi_ne_counterexample
restate gauss_seidel_ne_counterexample := PyamgV.C05YEx.gauss_seidel_ne_counterexample
restate gauss_seidel_nr_counterexample := PyamgV.C05YEx.gauss_seidel_nr_counterexample

/-! ### positive definiteness from the smoother parameters -/

/-- SOR row update, energy identity `‖e'‖² = ‖e‖² − ω(2−ω) rᵢ²/dᵢ` (Gauss–Seidel: `ω = 1`) -/
restate sorRow_energy_eq := PyamgV.C05Y.sorRow_energy_eq
/-- a full SOR sweep in any order, `0 < ω < 2`, symmetric positive semidefinite matrix with positive diagonal: strict
reduction of every error of non-zero energy -/
restate sorSweep_strict := PyamgV.C05Y.sorSweep_strictOn
/-- damped Jacobi, `0 < ω`, `ω ⟨A z, z⟩ < 2 ⟨D z, z⟩` for `z ≠ 0`: strict reduction -/
restate jacobi_strict := PyamgV.C05Y.jac_strictOn
/-- the smoothers of the cycle model with `StrictSm` parameters (Gauss–Seidel / SOR forward, backward, symmetric with
`0 < ω < 2`; damped Jacobi under the bound; `iterations ≥ 1`) are strict … -/
restate smoother_strict := PyamgV.C05Y.smFn_strict
/-- … and with `NonExpSm` parameters non-expansive -/
restate smoother_nonexp := PyamgV.C05Y.smFn_nonexp
/-- a V/W/F cycle whose finest pre- or post-smoother is strict (the rest non-expansive, Galerkin, energy-exact coarsest
solve) strictly reduces every error of non-zero energy -/
restate cyc_strict := PyamgV.C05Y.cyc_strict
/-- hence `⟨M r, r⟩ > 0` for `r = A v`, every `v` of non-zero energy: no observed hypothesis -/
restate cycle_precond_pd := PyamgV.C05Y.cycle_precond_pd
/-- **flag `True` ⇒ `M` symmetric and positive definite (V and W)** on a Galerkin hierarchy carrying the installed
smoothers, all non-expansive, the finest pre- or post-smoother strict -/
restate flag_cycle_spd := PyamgV.C05Y.flag_cycle_spd
/-- the strictness hypothesis from the installed specification's parameters -/
restate strict_of_installed := PyamgV.C05Y.strict_of_installed
/-- non-vacuity: every hypothesis of `flag_cycle_spd` holds on a two-level hierarchy over `ℚ` with forward / backward
Gauss–Seidel … -/
restate flag_cycle_spd_example := PyamgV.C05YEx.example_flag_cycle_spd
/-- … which has vectors of non-zero energy -/
restate flag_cycle_spd_example_nonzero := PyamgV.C05YEx.example_energy_ne

/-! ## E47 -- the definiteness clause for the EXECUTED matrix, every hypothesis a proved Boolean (Proofs/ExtC05Z*.lean)

`C05Z.c05SpdCheck` (`Proofs/ExtC05ZCheck.lean`, import-free, evaluated by the driver op `ext_c05z_spd` on every real
hierarchy of the check): the finest matrix is positive definite by an exact `Uᵀ D U` certificate (`pdB`: the factors come from
an untrusted elimination, the Boolean compares `B = Uᵀ D U` entry by entry), has a positive diagonal and is inverted by the
model's elimination; the finest pre- or post-smoother has strict parameters and every installed smoother non-expansive ones
(Gauss–Seidel / SOR: `0 < ω < 2` resp. `0 ≤ ω ≤ 2`; damped Jacobi: `0 < ω` and the certificate `jacB` of `2 D − ω A`; cf / fc
Jacobi: the same test, strict when every iteration count is at least one); every
coarse matrix, the coarsest included, is the Galerkin product of the dense copies and is inverted by the elimination. -/

/-- soundness of the `Uᵀ D U` certificate: positive `d_k`, unit upper triangular `U`, `B = Uᵀ D U` ⇒ `zᵀ B z > 0` for
every `z` that does not vanish on the first `n` coordinates -/
restate pd_certificate_sound := PyamgV.C05Z.pdCert_sound
/-- the Boolean `pdB` the driver evaluates is sound (its factors are computed, not trusted) -/
restate pdB_sound := PyamgV.C05Z.pdB_sound
/-- a CSR matrix with in-range indices whose dense copy passes `pdB` is positive definite as the operator `csrOp` -/
restate pdB_csr := PyamgV.C05Z.pdB_csr
/-- the stored diagonal `diagFn` is the diagonal of the dense copy -/
restate diagFn_dense := PyamgV.C05Z.diagFn_dense
/-- **`jacB isPos ω A = true` ⇒ `JacBound`** (`ω A < 2 D` as quadratic forms): the hypothesis of `jacobi_strict` is
discharged by a proved Boolean -/
restate jacobi_bound_certified := PyamgV.C05Z.jacB_sound
/-- entries of the model's dense product -/
restate mget_mmul := PyamgV.C05Z.mget_mmul
/-- the dense Galerkin test gives the operator identity `A' = R ∘ A ∘ P` -/
restate galerkin_check_sound := PyamgV.C05Z.galB_sound
/-- a successful elimination gives the right inverse the cycle theorems use -/
restate inverse_check_sound := PyamgV.C05Z.invB_sound
/-- the parameter tests give `NonExpSm` / `StrictSm` of `smoother_nonexp` / `smoother_strict` -/
restate nonexp_check_sound := PyamgV.C05Z.nonExpB_sound
restate strict_check_sound := PyamgV.C05Z.strictB_sound
/-- **damped Jacobi over a subset of the rows (the C- or F-points of cf / fc Jacobi) is non-expansive under `ω A < 2 D`** -/
restate jacobi_indexed_nonexp := PyamgV.C05Z.jacIdx_nonexp
/-- the smoothers of the cycle model with `NonExpSmZ` parameters (`NonExpSm` plus cf / fc Jacobi) are non-expansive -/
restate smoother_nonexp_cf := PyamgV.C05Z.smFn_nonexpZ
/-- one pass of cf / fc Jacobi (each part at least once, C and F together all rows) strictly reduces every error of non-zero energy -/
restate cf_pass_strict := PyamgV.C05Z.cfPass_strict
/-- the smoothers with `StrictSmZ` parameters (`StrictSm` plus cf / fc Jacobi with all counts ≥ 1) are strict -/
restate smoother_strict_cf := PyamgV.C05Z.smFn_strictZ
/-- soundness of the per-level part of the checker -/
restate spd_levels_sound := PyamgV.C05Z.spdH_of_B
/-- the model hierarchy is a hierarchy as the constructors build it (`WFG` of C02: `R` adjoint to `P`, Galerkin,
non-expansive smoothers for each level's own energy form, solvable coarse problems, exact coarsest solve) -/
restate model_hierarchy_wfg := PyamgV.C05Z.wfg_abs
/-- from `⟨M A v, v⟩_A > 0` on vectors of non-zero energy to `xᵀ M x > 0` for all `x ≠ 0` (finest matrix symmetric,
definite, invertible) -/
restate quad_of_op := PyamgV.C05Z.quad_of_op
/-- `denseM` is positive definite under the operator-level hypotheses and `c05SpdCheck` -/
restate denseM_pd := PyamgV.C05Z.denseM_pd
/-- **flag `True`, `c05Check = true`, `c05SpdCheck = true` ⇒ the executed matrix `denseM` is symmetric and `xᵀ M x > 0`
for every `x ≠ 0`** (V and W): `flag_cycle_spd` transported to the definition the driver runs, no undecided hypothesis -/
restate flag_denseM_spd_checked := PyamgV.C05Z.flag_denseM_spd_checked
/-- the instance the driver runs (`ℚ`, `ofRat = id`, `isPos = posR`) -/
restate flag_denseM_spd_checked_rat := PyamgV.C05Z.flag_denseM_spd_checked_rat
/-- non-vacuity: the checker evaluates to `true` on the 3-point Poisson two-level hierarchy with forward / backward
Gauss–Seidel (kernel evaluation) … -/
restate spd_check_example_true := PyamgV.C05ZEx.spd5
/-- … so its `denseM` is symmetric positive definite with no hypothesis left; … -/
restate spd_check_example := PyamgV.C05ZEx.example_denseM_spd
/-- … the same with damped Jacobi (`ω = 1`) before and after: the certificate of `2 D − A` passes; … -/
restate spd_check_example_jacobi_cert := PyamgV.C05ZEx.jacB1
restate spd_check_example_jacobi := PyamgV.C05ZEx.example_denseM_spd_jacobi
/-- cf / fc Jacobi pass the non-expansiveness test there, are strict iff every iteration count is at least one, and the
executed cycle with `cf_jacobi` before / `fc_jacobi` after is symmetric positive definite -/
restate spd_check_example_cf := PyamgV.C05ZEx.cf_nonexp_example
restate spd_check_example_cf_cycle := PyamgV.C05ZEx.example_denseM_spd_cf
/-- … and the checker rejects `ω = 2` and a non-Galerkin coarse matrix -/
restate spd_check_example_rejects := PyamgV.C05ZEx.spd_rejects

/-! ### E47 -- the executed block smoothers, every hypothesis a proved Boolean (Proofs/ExtC05ZBlk*.lean)

`C05ZB.blkSmCheck A bs` (import-free, driver op `ext_c05z_blk`, evaluated for every level of the extended cycle part that
carries a block smoother with block size > 1): `A.tobsr(bs)` and `blockDinv` succeed, `Dinv_i B_ii = I` for the dense
diagonal blocks, symmetric inverse blocks, sizes, in-range block columns. -/

/-- `leftInvB = true → Dinv_i B_ii = I` on every block row (`LeftInv` of `executed_bgs_smoother`) -/
restate block_leftinv_check_sound := PyamgV.C05ZB.leftInv_of_B
/-- `dinvSymB = true → DinvSym` -/
restate block_dinvsym_check_sound := PyamgV.C05ZB.dinvSym_of_B
/-- **`tobsr` preserves the operator**: `A.toBsr bs = some B → bsrLin B = csrLin A` -/
restate bsrLin_toBsr := PyamgV.C05ZB.bsrLin_toBsr
/-- the CSR operator of the block / polynomial theorems is the CSR operator `csrOp` of the symmetry theorems and of `c05Check` -/
restate csrLin_eq_csrOp := PyamgV.C05ZB.csrLin_eq_csrOp
/-- symmetry of that operator from the dense test the driver evaluates -/
restate csrLin_sym_of_dense := PyamgV.C05ZB.csrLin_sym_of_dense
/-- **the executed `block_gauss_seidel` of the extended cycle model (`applySmY`), `blkSmCheck = true`**: returns and is
`x + powM A (sweepM A (dirL sweep steps)) k (b − A x)` for the CSR operator `A` -/
restate executed_bgs_smoother_checked := PyamgV.C05ZB.executed_bgs_smoother_checked
/-- … the executed `block_jacobi`: `x + powM A (ω D⁻¹) k (b − A x)` -/
restate executed_bjac_smoother_checked := PyamgV.C05ZB.executed_bjac_smoother_checked
/-- **checked: forward / backward executed block Gauss–Seidel are an adjoint pair, symmetric sweeps self-adjoint** -/
restate executed_bgs_pair_checked := PyamgV.C05ZB.executed_bgs_pair_checked
/-- … and the executed block Jacobi operator is self-adjoint -/
restate executed_bjac_selfadj_checked := PyamgV.C05ZB.executed_bjac_selfadj_checked
/-- non-vacuity (kernel evaluation): the checker is `true` on the 4-point Poisson matrix with block size 2, … -/
restate block_check_example_true := PyamgV.C05ZBEx.blk4
/-- … where the executed forward / backward sweeps are an adjoint pair with no hypothesis left; … -/
restate block_check_example_pair := PyamgV.C05ZBEx.example_bgs_pair
/-- … a singular diagonal block and a block size that does not divide `n` are rejected -/
restate block_check_example_rejects := PyamgV.C05ZBEx.blk_rejects

/-! ### E47 -- the extended executed model `denseMY` on hierarchies whose smoothers are those of the first model -/

/-- `denseMY` over base smoothers (`toBaseH Ls = some Ls'`) is `denseM` of the projected hierarchy -/
restate denseMY_is_denseM_on_base := PyamgV.C05Z.denseMY_base
/-- the recursion `solveLvlY` over base smoothers is `solveLvl` -/
restate solveLvlY_is_solveLvl_on_base := PyamgV.C05Z.solveLvlY_base
/-- **flag `True`, `c05Check` and `c05SpdCheck` true on the projected hierarchy ⇒ the matrix `denseMY` the driver computes is
symmetric positive definite** -/
restate flag_denseMY_spd_checked := PyamgV.C05Z.flag_denseMY_spd_checked
/-- the instance the driver runs (`ext_c05y_cyc r`, `ext_c05z_spdy r`) -/
restate flag_denseMY_spd_checked_rat := PyamgV.C05Z.flag_denseMY_spd_checked_rat
/-- non-vacuity: the 3-point Poisson hierarchy as a hierarchy of the extended model -/
restate denseMY_spd_example := PyamgV.C05ZEx.example_denseMY_spd

/-! ### E47, complex data -- an exact certificate for the executed complex model matrix

No definiteness theorem from the smoother parameters exists for Gaussian-rational hierarchies (the energy theory is over
ordered fields).  The driver decides exactly whether the matrix `denseM CRat.ofRat …` it computed is Hermitian positive
definite (`isHPD CRat.conj posC`, op `ext_c05z_spd c`); the certificate is sound: -/

/-- the matrix of the C16 development read off a matrix of the cycle model is `mget` -/
restate complex_toMat_mget := PyamgV.C05Z.toMat_mget
/-- **`isHPD CRat.conj posC M n = true` ⇒ `M` is Hermitian and `Re (xᴴ M x) > 0` for every `x ≠ 0`** -/
restate complex_model_hpd_certificate := PyamgV.C05Z.hpd_certificate_complex

/-! ## E31 -- `_same_parameters` and the flag computation, translated from the source (`harness/py2lean.py`)

`PyamgV.Generated.PyLogic.smoothing_same_parameters` / `smoothing_change_smoothers_flag` are executable Lean
definitions regenerated from the Python AST of pyamg/relaxation/smoothing.py on every run (the second one is
the backward slice of `ml.symmetric_smoothing` in `change_smoothers`); the driver runs them
(`ext_py_call`) on every row of the decision table and the check compares them with the real functions.
The theorems tie them to the hand-written model `PyamgV.C05.flag` the rest of this file is about. -/
section e31
open PyamgV.ExtPy PyamgV.Generated.PyLogic PyamgV.ExtPyFlag

/-- `_same_parameters(kw1, kw2)` is `True` iff every key but `'sweep'` is absent on both sides or present
with `==` values -/
restate py_same_parameters_iff := PyamgV.ExtPySame.same_true_iff
/-- ... so it ignores `'sweep'` (changed / added / removed on either side) ... -/
restate py_same_parameters_ignores_sweep := PyamgV.ExtPySame.same_ignores_sweep
/-- ... and nothing else: any other key that differs makes it `False` -/
restate py_same_parameters_detects := PyamgV.ExtPySame.same_detects
/-- reflexive and symmetric on well-formed keyword dictionaries (distinct keys; any nesting of values) -/
restate py_same_parameters_refl := PyamgV.ExtPySame.same_refl_wf
restate py_same_parameters_symm := PyamgV.ExtPySame.same_symm_wf
/-- Python's `==` on the value universe is reflexive and symmetric -/
restate py_eq_refl := PyamgV.ExtPy.pyEq_refl
restate py_eq_symm := PyamgV.ExtPy.pyEq_symm
/-- on scalar option values the generated `_same_parameters` is the model's `sameParameters` -/
restate py_same_parameters_model := PyamgV.ExtPyFlag.same_model
/-- the per-level test of the generated code (closed formula `levelOkPy`) is the model's `levelOk` -/
restate py_level_test_is_model := PyamgV.ExtPyFlag.levelOkPy_eq_model
/-- the generated flag computation as a formula: all examined levels pass the per-level test; which levels
are examined and which entry a level gets follows the three loops of the source -/
restate py_flag_formula := PyamgV.ExtPyFlag.flag_core
/-- **REFINEMENT `Generated.flag = C05.flag`** wherever the model says `change_smoothers` returns -/
restate py_flag_refines_model := PyamgV.ExtPyFlag.flag_refines_model
/-- generated flag `True` ⇒ the model's symmetric-pair test holds for the pair installed on EVERY level -/
restate py_flag_true_levels := PyamgV.ExtPyFlag.flag_true_levels
/-- single specifications stand for one-entry lists; other types raise `ValueError` -/
restate py_flag_single_pre := PyamgV.ExtPyFlag.flag_single_pre
restate py_flag_single_post := PyamgV.ExtPyFlag.flag_single_post
restate py_flag_rejects := PyamgV.ExtPyFlag.flag_rejects_pre
/-- the tables of the generated code are the model's tables -/
restate py_krylov_table := PyamgV.ExtPyFlag.krylov_in
restate py_symmetric_table := PyamgV.ExtPyFlag.symmetric_in

-- non-vacuity, evaluated by the kernel on the generated definition: forward / backward Gauss-Seidel keeps the
-- flag on three levels; a list whose second entry has no partner loses it
example : smoothing_change_smoothers_flag (.list [.none, .none, .none])
    (.tuple [.str "gauss_seidel", .dict [("sweep", .str "forward")]])
    (.tuple [.str "gauss_seidel", .dict [("sweep", .str "backward")]]) = .ok (.bool true) := by rfl
example : smoothing_change_smoothers_flag (.list [.none, .none, .none])
    (.list [.str "jacobi", .tuple [.str "gauss_seidel", .dict [("sweep", .str "forward")]]])
    (.str "jacobi") = .ok (.bool false) := by rfl
example : smoothing_same_parameters (.dict [("iterations", .int 2), ("sweep", .str "forward")])
    (.dict [("sweep", .str "backward"), ("iterations", .bool false), ("withrho", .none)]) = .ok (.bool false) := by rfl
example : smoothing_same_parameters (.dict [("iterations", .int 2), ("sweep", .str "forward")])
    (.dict [("sweep", .str "backward"), ("iterations", .int 2)]) = .ok (.bool true) := by rfl
example : PyamgV.C05.flag (cfgs [(some "gauss_seidel", [("sweep", .str "forward")])])
    (cfgs [(some "gauss_seidel", [("sweep", .str "backward")])]) 2 = some true := by decide
end e31

end PyamgV.Props.C05
