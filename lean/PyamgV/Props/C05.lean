import PyamgV.Props.Restate
import PyamgV.Proofs.C05Sym
import PyamgV.Proofs.Pd
import PyamgV.Proofs.GsStrict
import PyamgV.Proofs.GsArrayRefine
import PyamgV.Proofs.Cycle
import PyamgV.Proofs.GsSweep

/-! # C05 — a solver that reports symmetric smoothing yields a Hermitian preconditioner

Models (both run by the driver against the working tree on every check):

* `PyamgV.C05.flag` (`Model/C05Flag.lean`): the derivation of `ml.symmetric_smoothing` in
  `change_smoothers` as the code is now -- specifications `(name, kwargs)`, which level gets which
  entry of lists of different length, the per-level test with `_same_parameters`, rejection of
  unknown names / keywords; `cgWarns` is the consumer in `MultilevelSolver.solve`.
* `PyamgV.C05.denseM` (`Model/C05Cycle.lean`): the V/W-cycle preconditioner over exact rationals /
  Gaussian rationals built from the kernel models of C09 and the setup defaults (`smOf`).

Theorems: flag `True` ⇒ the per-level test holds for the pair installed on **every** level ⇒ (for
the smoothers of the cycle model) the installed post-smoother is the adjoint of the pre-smoother ⇒
the V- and W-cycle operators are symmetric; a symmetric non-expansive (strictly contracting) cycle
gives a positive semidefinite (definite) preconditioner. Real symmetric case (ordered fields). -/
namespace PyamgV.Props.C05
open PyamgV PyamgV.C05

/-! ## the decision table -/

/-- flag `True` ⇒ the per-level test `levelOk` holds for the pair installed on every smoothing
level, including the levels the code fills with the last entries without examining them -/
restate flag_sound := PyamgV.C05.flag_sound
/-- if `change_smoothers` returns at all, every installed specification names a registered smoother
and carries only keywords its setup function takes -/
restate flag_valid := PyamgV.C05.flag_valid
/-- one failing examined level makes the flag `False` (so the CG path warns) -/
restate flag_false_of_level := PyamgV.C05.flag_false_of_level
/-- what `levelOk` accepts: equal iteration counts and either a cf/fc pair with equal
`f_iterations`, `c_iterations`, or equal non-Krylov names with equal remaining options
(`_same_parameters`) that are by-definition symmetric or carry an admissible sweep pair -/
restate levelOk_shape := PyamgV.C05.levelOk_shape
/-- `_same_parameters` ⇒ every option other than `sweep` has the same value (or is absent) on both sides -/
restate sameParameters_lookup := PyamgV.C05.sameParameters_lookup

/-- the CG warning fires exactly when the flag is `False` -/
theorem cg_warns_iff (f : Bool) : cgWarns f true = true ↔ f = false := by
  cases f <;> simp [cgWarns]

/-! ## from the table to adjoint smoothers -/

/-- `levelOk a b` with both specifications inside the cycle model ⇒ the two smoothers are partners:
forward/backward or symmetric/symmetric Gauss–Seidel/SOR with the same ω, equal Jacobi, cf/fc Jacobi
with equal counts and equal ω, or none -/
restate levelOk_partner := PyamgV.C05.levelOk_partner
/-- partners have adjoint operators (A symmetric): Gauss–Seidel/SOR forward–backward with the same
ω, symmetric sweeps, Jacobi, cf/fc Jacobi, any iteration count -/
restate partner_adjoint := PyamgV.C05.partner_adjoint
/-- the backward Gauss–Seidel sweep is the adjoint of the forward sweep -/
restate sweepOp_reverse_adj := PyamgV.sweepOp_reverse_adj
/-- the same for SOR with one ω -/
restate sorSweep_reverse_adj := PyamgV.sorSweep_reverse_adj
/-- weighted (indexed) Jacobi is self-adjoint -/
restate jacOp_selfadj := PyamgV.C05.jacOp_selfadj
/-- `k` repetitions of an adjoint pair are an adjoint pair -/
restate powM_adjoint := PyamgV.IsAdj.powM
/-- `iterations` Gauss–Seidel/SOR passes (any sweep mode) are the linear iteration with operator `smOp` -/
restate gs_isLinIter := PyamgV.C05.gs_isLinIter
/-- a weighted Jacobi step over distinct rows (all rows, or the C or F points of cf/fc Jacobi) is the linear
iteration with operator `jacOp` -/
restate jac_isLinIter := PyamgV.C05.jac_isLinIter
/-- every smoother of the cycle model (Gauss–Seidel/SOR in the three sweep modes, Jacobi, cf/fc Jacobi,
none; any iteration counts) is the linear iteration `x + smOp (b − A x)` at the level of the kernel rows -/
restate sm_isLinIter := PyamgV.C05.sm_isLinIter
/-- `k` repetitions of a linear iteration are the linear iteration with operator `powM` -/
restate isLinIter_pow := PyamgV.IsLinIter.pow
/-- the executable array kernel (the one compared bit-exactly with relaxation.h) refines the
function-level sweep the operator statements are about -/
restate gaussSeidel_refines := PyamgV.gaussSeidel_refines

/-! ## the cycle -/

/-- the recursion of `__solve` (V, W, F) with linear-iteration smoothers is the linear iteration
`x + M (b − A x)` with the textbook operator `M = Mop` -/
restate cyc_isLinIter := PyamgV.cyc_isLinIter
/-- adjoint smoother pairs, `R = Pᵀ`, symmetric level matrices and coarsest solve ⇒ `Mop .V` and
`Mop .W` are self-adjoint -/
restate Mop_sym := PyamgV.Mop_sym
/-- **flag `True` ⇒ `⟨M u, v⟩ = ⟨u, M v⟩` for the V- and the W-cycle** (smoothers of the cycle model) -/
restate flag_cycle_symmetric := PyamgV.C05.flag_cycle_symmetric

/-- the same for the recursion of `__solve` itself: one V- or W-cycle is `x + M (b − A x)` with symmetric `M` -/
restate flag_cycle_preconditioner := PyamgV.C05.flag_cycle_preconditioner

/-! ## definiteness -/

/-- V/W/F cycles over non-expansive smoothers, Galerkin coarse matrices and an exact coarsest solve never
increase the energy norm of the error -/
restate cyc_nonexp := PyamgV.cyc_nonexp
/-- Gauss–Seidel sweeps in any order are non-expansive in the energy norm (A symmetric positive semidefinite) -/
restate gsSweep_nonexp := PyamgV.gsSweep_nonexp
/-- SOR sweeps in any order with `0 ≤ ω ≤ 2` are non-expansive -/
restate sorSweep_nonexp := PyamgV.sorSweep_nonexp
/-- a non-expansive linear iteration has `⟨M r, r⟩ ≥ 0` on the range of `A` -/
restate precond_psd := PyamgV.precond_psd
/-- `⟨M r, r⟩ > 0` where the iteration strictly reduces the energy of the error -/
restate precond_pd := PyamgV.precond_pd
/-- a full Gauss–Seidel sweep on an SPD matrix strictly reduces the energy of a non-zero error -/
restate gsSweep_strict_full := PyamgV.gsSweep_strict_full

/-! ## exact facts of the table that are recorded findings (they change when the code changes) -/

/-- finding `ne-nr-smoothers-flagged-symmetric`: the table accepts the normal-equation smoothers,
which are outside every adjointness theorem (and outside the cycle model) -/
theorem table_accepts_ne_nr :
    flag [⟨some "jacobi_ne", []⟩] [⟨some "jacobi_ne", []⟩] 2 = some true ∧
    flag [⟨some "gauss_seidel_ne", [("sweep", .str "forward")]⟩]
         [⟨some "gauss_seidel_ne", [("sweep", .str "backward")]⟩] 2 = some true ∧
    flag [⟨some "gauss_seidel_nr", [("sweep", .str "symmetric")]⟩]
         [⟨some "gauss_seidel_nr", [("sweep", .str "symmetric")]⟩] 2 = some true ∧
    smOf ⟨some "jacobi_ne", []⟩ = none := by decide

/-- since commit 47b225a a cf/fc pair with different `omega` loses the flag (it used to keep it:
former finding `cf-fc-pair-different-options`) -/
theorem table_rejects_cf_fc_with_different_omega :
    flag [⟨some "cf_jacobi", [("omega", .num 1)]⟩] [⟨some "fc_jacobi", [("omega", .num 2)]⟩] 2 = some false ∧
    flag [⟨some "cf_jacobi", [("omega", .num 2)]⟩] [⟨some "fc_jacobi", [("omega", .num 2)]⟩] 2 = some true := by
  decide

/-! ## non-vacuity -/

example : flag [⟨some "gauss_seidel", [("sweep", .str "forward")]⟩]
    [⟨some "gauss_seidel", [("sweep", .str "backward")]⟩] 3 = some true := by decide
example : flag [⟨some "gauss_seidel", []⟩] [⟨some "gauss_seidel", []⟩] 3 = some false := by decide
/-- equal names, different `omega`: not symmetric since commit 255ae68 -/
example : flag [⟨some "sor", [("sweep", .str "forward"), ("omega", .num 1)]⟩]
    [⟨some "sor", [("omega", .num 2), ("sweep", .str "backward")]⟩] 2 = some false := by decide
/-- a list that is too short is continued with its last entry, and that level is examined -/
example : flag [⟨some "jacobi", []⟩, ⟨some "gauss_seidel", []⟩] [⟨some "jacobi", []⟩] 2 = some false := by decide
example : flag [⟨some "jacobi", []⟩, ⟨some "gauss_seidel", []⟩] [⟨some "jacobi", []⟩] 1 = some true := by decide
example : flag [⟨some "gauss_seidel", [("omega", .num 1)]⟩] [⟨none, []⟩] 2 = none := by decide
example : smOf ⟨some "sor", [("sweep", .str "backward"), ("omega", .num 1)]⟩ = some (.gs 1 .backward 1) := by decide

/-- the hypotheses of `flag_cycle_symmetric` are satisfiable: a two-level hierarchy with
forward/backward Gauss–Seidel -/
example : WFFlag (K := Rat) LinearMap.id
    [⟨some "gauss_seidel", [("sweep", .str "forward")]⟩] [⟨some "gauss_seidel", [("sweep", .str "backward")]⟩] 0
    ⟨1, fun _ => 1, [], []⟩ [⟨1, fun _ => 1, [], []⟩]
    [{ A := LinearMap.id, P := LinearMap.id, R := LinearMap.id, pre := fun x _ => x, post := fun x _ => x,
       Qpre := smOp LinearMap.id (fun _ => 1) 1 [] [] (.gs 1 .forward 1),
       Qpost := smOp LinearMap.id (fun _ => 1) 1 [] [] (.gs 1 .backward 1) }] :=
  ⟨fun _ _ => rfl, by simp, by simp, ⟨.gs 1 .forward 1, .gs 1 .backward 1, by decide, by decide, rfl, rfl⟩,
   fun _ _ => rfl, fun _ _ => rfl⟩

end PyamgV.Props.C05
