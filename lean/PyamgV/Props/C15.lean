import PyamgV.Props.Restate
import PyamgV.Model.Facts
import PyamgV.Generated.Facts
import PyamgV.Proofs.Cache
import PyamgV.Proofs.C15Reuse
import PyamgV.Proofs.C15Store
import PyamgV.Proofs.ExtSpmmMat
import PyamgV.Proofs.ExtSpmmHier
import PyamgV.Proofs.ExtC15CanonHier
import PyamgV.Proofs.ExtC04YConv
import PyamgV.Proofs.ExtC04YPairwise

/-! # C15 — setup is pure and reproducible; built solvers are reusable

Models (all executed by the driver against the working tree on every run):
* `C15.gcall` / `grun` (`c15_cache`): the object returned by `coarse_grid_solver` as a state machine
  (factor on first use, `nnz == 0` shortcut, stateless kinds), compared call by call -- cached state,
  number of factorisations, which factorisation answered -- with the real object on arbitrary histories;
* `C15.cycS` / `runCalls` (`c15_trace`): `__solve` (V / W / F / AMLI) and histories of `solve` calls with
  the coarse-solver object and a lazily parameterised smoother (`memoLevel`) threaded through, compared
  with the real number of coarse-solver calls and factorisations per call and with the presence of the
  lazily created level attribute after every call;
* `C15.Store` (`c15_store`): which object `levels[0].A` is and where AIR's in-place filtering lands.

The numerical content of smoothers, transfer operators and factorisations is a parameter of the
model; that those are functions of their arguments on the real code (no hidden state, no write into a
level operator) is what the used-versus-fresh search observes. -/
namespace PyamgV.Props.C15

/-- coarse-solver object, every solver kind, `nnz == 0` shortcut included: in a history that always
passes the same matrix every answer is the one an object created for that call alone gives -/
restate coarse_reuse := PyamgV.C15.grun_same_matrix
/-- the answer to the last call is independent of the calls before it -/
restate coarse_last_independent := PyamgV.C15.glast_independent
/-- such a history factorises exactly once if the solver is direct, the matrix has stored entries and
the history is not empty, and never otherwise -/
restate coarse_factor_once := PyamgV.C15.gcount_same_matrix
/-- a V / W / F / AMLI cycle of any depth run against a stateful coarse solver and stateful smoothers
returns what the cycle with the plain functions returns, and keeps the state invariant -/
restate cycle_state_free := PyamgV.C15.cycS_eq_cycP
/-- a memo cell ("compute on first use, keep as attribute") that is empty or holds `compute k` returns
`compute k` and stays so -/
restate memo_sound := PyamgV.C15.memo_sound
/-- a smoother that fetches its parameters through a memo cell at every call computes a function of `(x, b)` -/
restate memo_smoother := PyamgV.C15.memoSmoother_spec
/-- every call of a history of `solve` calls returns what the same call returns on a never-used solver -/
restate solve_history := PyamgV.C15.runCalls_eq
/-- general form: coarse solver and smoothers with any state; under an invariant that holds initially and
makes each of them a function of its arguments, the result of a `solve` call after any finite history is
the result on the hierarchy of plain functions -/
restate solver_reusable_gen := PyamgV.C15.solver_reusable_gen
/-- state-free smoothers, any coarse-solver kind of `coarse_grid_solver`: the result of a `solve` call after
any finite history equals `evalCall (fresh ..)`: a function of the call and the hierarchy alone -/
restate solver_reusable := PyamgV.C15.solver_reusable
/-- the same with smoother parameters that are created lazily inside the first smoothing call
(`strength_based_schwarz`) -/
restate solver_reusable_memo := PyamgV.C15.solver_reusable_memo
/-- two histories, same last call: identical answers -/
restate solve_last_independent := PyamgV.C15.solve_last_independent
/-- a fresh solver is the first call of the empty history -/
restate fresh_solver_eq := PyamgV.C15.fresh_solver_eq
/-- store model: no sequence of constructor steps writes into the user's matrix or candidates -/
restate store_pure := PyamgV.C15.Store.store_pure
/-- store model: `levels[0].A` is the user's own object iff the format is accepted and the dtype is
floating point (purity rests on "never written", not on "always copied") -/
restate finest_alias_iff := PyamgV.C15.Store.finest_alias_iff
/-- store model: in-place re-ordering of index arrays (`sort_indices()` in smoother set-up, `get_diagonal`,
strength routines) can reach the user's arrays only when the finest level is the user's own object -/
restate layout_user_only_if_alias := PyamgV.C15.Store.layout_user_only_if_alias
/-- the design-round statements on the bare cache (`Proofs/Cache.lean`) -/
restate cache_run_same_matrix := PyamgV.Cache.run_same_matrix
restate cache_last_independent := PyamgV.Cache.last_independent

/-! ### the same hierarchy for any input format, Galerkin step (extension E27): `Model/ExtSpmm.lean` models
the conversions the constructors apply to their input (`Spmm.Input.toCsr`: COO with duplicates summed,
CSC, dense, BSR with any block size, CSR as it is) and `R @ A @ P`; the driver runs them (`ext_convert`,
`ext_spmm`) and the C04 check compares them with `scipy.sparse` array by array. -/
/-- every conversion to CSR preserves the dense meaning: `val (toCsr X) = val X` -/
restate convert_preserves_meaning := PyamgV.Spmm.Input.val_toCsr
/-- ... as Mathlib matrices -/
restate convert_preserves_matrix := PyamgV.Spmm.Input.mat_toCsr
/-- ... and returns well-formed CSR arrays of the same shape -/
restate convert_well_formed := PyamgV.Spmm.Input.toCsr_wf
/-- format by format -/
restate convert_coo := PyamgV.Spmm.val_cooToCsr
restate convert_csc := PyamgV.Spmm.val_cscToCsr
restate convert_dense := PyamgV.Spmm.val_denseToCsr
restate convert_bsr := PyamgV.Spmm.val_bsrToCsr
/-- COO -> CSR returns the canonical form: every row strictly sorted by column (duplicates were summed) -/
restate convert_coo_canonical := PyamgV.Spmm.cooToCsr_sorted
/-- `sum_duplicates()` changes the stored pattern only -/
restate sum_duplicates_meaning := PyamgV.Spmm.val_sumDuplicates
restate sum_duplicates_canonical := PyamgV.Spmm.sumDuplicates_sorted
/-- format independence of the Galerkin step: two inputs in any of the accepted formats with the same
dense meaning give coarse operators `R @ toCsr(X) @ P` with the same dense meaning -/
restate galerkin_format_independent := PyamgV.Spmm.galerkin_input_independent
/-- the same for all three operands at CSR level: stored pattern, order of the entries, duplicates and
explicit zeros of `R`, `A`, `P` do not influence the meaning of the coarse operator -/
restate galerkin_layout_independent := PyamgV.Spmm.galerkin_congr
/-- the coarse operator of a converted input is the triple product with the input's own dense meaning -/
restate galerkin_of_input := PyamgV.Spmm.mat_galerkin_input
/-- the whole hierarchy: the loop of the constructors (`Coarsen.build`) with the sparse step "`P` from the level
matrix, `R = conj(P)ᵀ`, `A_c = R @ A @ P`", started on two stored forms of one matrix, returns the same number
of levels and level by level the same dense meaning, provided the construction of `P` (strength, splitting /
aggregation, interpolation, smoothing: a parameter here, and what the format search observes on the real
code) sees the dense meaning only (`PStepOK`) -/
restate hierarchy_format_independent := PyamgV.Spmm.hierarchy_format_independent
/-- ... for an input given in two of the accepted formats -/
restate hierarchy_input_independent := PyamgV.Spmm.hierarchy_input_independent
/-- the simulation argument behind it, for any relation between the states of two runs of the loop -/
restate loop_simulation := PyamgV.Spmm.build_sim
/-- `PStepOK` is satisfiable: aggregation of consecutive unknowns looks at the shape only -/
restate pstep_hypothesis_satisfiable := PyamgV.Spmm.pairStep_ok
/-- the instance the driver executes (`ext_convert`) -/
restate convert_driver := PyamgV.Spmm.CRatInst.valC_toCsrC

/-! ### canonical stored form (extension E41): `Model/ExtC15Canon.lean` models `sum_duplicates()` /
`eliminate_zeros()` and one real constructor path on arrays; the driver runs them (`ext_c15_canon`) against
`scipy.sparse` and `pyamg.aggregation.pairwise_aggregation`.  The constructors bring every input that is not CSR /
BSR to CSR by `csr_array(A)` and nothing else (no `sort_indices`, no `eliminate_zeros` at entry). -/
/-- two rows strictly sorted by column with the same stored columns and the same sums per column are equal lists -/
restate canonical_row_unique := PyamgV.Canon.sorted_rows_unique
/-- two well-formed CSR matrices of one shape whose rows are equal lists have equal `indptr`, `indices`, `data` -/
restate csr_arrays_ext := PyamgV.Canon.csr_ext
/-- UNIQUENESS, explicit zeros tracked: canonical (well formed, rows strictly sorted: no duplicates) + same dense
meaning + same stored pattern => equal arrays -/
restate canonical_unique := PyamgV.Canon.canonical_unique
/-- UNIQUENESS: canonical without stored zeros + same dense meaning => equal arrays -/
restate canonical_unique_nz := PyamgV.Canon.canonical_unique_nz
/-- `sum_duplicates(); eliminate_zeros()` keeps the meaning, returns the canonical form, and its arrays are a
function of the dense meaning alone; canonical matrices are its fixed points -/
restate canoniser_meaning := PyamgV.Canon.val_canonNZ
restate canoniser_canonical := PyamgV.Canon.canonNZ_canonical
restate canoniser_unique := PyamgV.Canon.canonNZ_unique
restate canoniser_fixed := PyamgV.Canon.canonNZ_fixed
/-- the checker the driver runs decides `Canonical` -/
restate canonical_checker := PyamgV.Canon.isCanonical_iff
/-- which conversions return canonical CSR: COO and dense always; CSC iff no row index twice in a column (order in
the column irrelevant); BSR iff block columns strictly sorted; CSR is taken as it is -/
restate convert_canonical := PyamgV.Canon.toCsr_canonical
restate convert_csc_canonical := PyamgV.Canon.cscToCsr_canonical
restate convert_bsr_canonical := PyamgV.Canon.bsrToCsr_canonical
restate convert_dense_canonical := PyamgV.Canon.denseToCsr_canonical
/-- `sum_duplicates()` keeps the set of stored columns: zeros that arise by cancellation stay stored -/
restate sum_duplicates_pattern := PyamgV.Canon.keys_canon
/-- the stored pattern of the conversion in terms of the input (COO: every triple; CSC: its own pattern; dense: the
non-zeros; BSR: every entry of every stored block) -/
restate convert_pattern := PyamgV.Canon.stored_toCsr
/-- same meaning + same stored pattern => the conversions return IDENTICAL arrays -/
restate convert_arrays_unique := PyamgV.Canon.toCsr_arrays_unique
restate convert_arrays_unique_nz := PyamgV.Canon.toCsr_arrays_unique_nz
/-- hence the whole hierarchy, with an ARBITRARY step function (strength, splitting / aggregation, interpolation,
smoothing, Galerkin product: any function of the arrays of the level matrix) and no `PStepOK` hypothesis -/
restate hierarchy_format_independent_canonical := PyamgV.Canon.hierarchy_format_independent_canonical
restate hierarchy_canonical_csr := PyamgV.Canon.hierarchy_canonical_csr
restate constructor_format_independent_canonical := PyamgV.Canon.any_function_of_arrays
/-- `PStepOK` holds for every construction of `P` that reads the level matrix through the canonical form -/
restate pstep_ok_behind_canoniser := PyamgV.Canon.pstepOK_canon
/-- the array-level model of the `pairwise_solver` step (C14 strength model + C12 kernel model + `T`) returns a
well-formed `n x k` prolongator, `0 < k < n` -/
restate pairwise_step_spec := PyamgV.Canon.pwRaw_spec
/-- on canonical input without stored zeros the step behind the canonicaliser is the array-level step -/
restate pairwise_step_raw := PyamgV.Canon.pwStep_eq_raw
/-- `PStepOK` discharged for that path ... -/
restate pairwise_pstep_ok := PyamgV.Canon.pwStep_ok
/-- ... hence `hierarchy_format_independent` without hypothesis: any two stored forms of one matrix (unsorted,
duplicates, explicit zeros) / any two input formats give level by level the same dense meaning -/
restate pairwise_hierarchy_format_independent := PyamgV.Canon.pairwise_hierarchy_format_independent
restate pairwise_hierarchy_input_independent := PyamgV.Canon.pairwise_hierarchy_input_independent
/-- the instances the driver executes (`ext_c15_canon`) -/
restate canon_driver_unique := PyamgV.Canon.CRatInst.canonNZC_unique
restate canon_driver_canonical := PyamgV.Canon.CRatInst.canonNZC_canonical
restate canon_driver_convert := PyamgV.Canon.CRatInst.toCsrC_unique

/-! ### LIL and DIA input; the pairwise path with any number of matchings (extension E54).  `Model/ExtC04YConv.lean` models
`lil.tocsr()` (the per-row lists concatenated) and `dia.tocsr()` (kernel `dia_tocsr` on `argsort(offsets)`: row by row, the
diagonals by increasing offset, padding of the data array ignored, exact zeros dropped); `InputX` = `Input` + these two.
`Model/ExtC04YPairwise.lean` models `pairwise_aggregation(A, matchings=m, compute_P=True)` for any `m` (strength, kernel,
`T_temp`, `T @ T_temp`, `T_temp.T @ Ac @ T_temp` in `csr_matmat`'s storage order) + the stall test; `m = 2` is the default of
`pairwise_solver`.  The driver runs both (`c04y_convert`, `c04y_pw`) against scipy / pyamg, array by array. -/
/-- LIL -> CSR and DIA -> CSR preserve the dense meaning (DIA: out-of-range padding and columns beyond `L` ignored) -/
restate convert_lil := PyamgV.ConvX.val_lilToCsr
restate convert_dia := PyamgV.ConvX.val_diaToCsr
/-- ... and return well-formed CSR arrays -/
restate convert_lil_well_formed := PyamgV.ConvX.lilToCsr_wf
restate convert_dia_well_formed := PyamgV.ConvX.diaToCsr_wf
/-- DIA ALWAYS converts to the canonical form without stored zeros ... -/
restate convert_dia_canonical := PyamgV.ConvX.diaToCsr_canonical
/-- ... so its arrays are a function of the dense meaning: any `L`, any padding, any order of the offsets, extra zero diagonals -/
restate convert_dia_arrays_unique := PyamgV.ConvX.diaToCsr_unique
/-- LIL converts to the canonical form iff every index list is strictly sorted (SciPy's invariant of the format) -/
restate convert_lil_canonical_iff := PyamgV.ConvX.lilToCsr_canonical_iff
/-- stored patterns: LIL keeps what its index lists hold (explicit zeros included), DIA stores exactly the non-zeros -/
restate convert_lil_pattern := PyamgV.ConvX.stored_lilToCsr
restate convert_dia_pattern := PyamgV.ConvX.stored_diaToCsr
/-- `argsort(offsets)` of the model: a permutation of the diagonals, strictly increasing offsets -/
restate dia_order_permutation := PyamgV.ConvX.Dia.order_perm
restate dia_order_sorted := PyamgV.ConvX.Dia.order_sorted
/-- the statements of E27 / E41 for all seven input formats -/
restate convert_all_preserve_meaning := PyamgV.ConvX.InputX.val_toCsr
restate convert_all_preserve_matrix := PyamgV.ConvX.InputX.mat_toCsr
restate convert_all_well_formed := PyamgV.ConvX.InputX.toCsr_wf
restate convert_all_canonical := PyamgV.ConvX.toCsr_canonicalX
restate convert_all_pattern := PyamgV.ConvX.stored_toCsrX
restate convert_all_arrays_unique := PyamgV.ConvX.toCsr_arrays_uniqueX
restate galerkin_format_independent_all := PyamgV.ConvX.galerkin_input_independentX
restate hierarchy_input_independent_all := PyamgV.ConvX.hierarchy_input_independentX
restate hierarchy_format_independent_canonical_all := PyamgV.ConvX.hierarchy_format_independent_canonicalX
/-- the instances the driver executes (`c04y_convert`) -/
restate convert_driver_all := PyamgV.ConvX.CRatInst.valC_toCsrXC
restate convert_driver_dia_canonical := PyamgV.ConvX.CRatInst.toCsrXC_dia_canonical
restate convert_driver_lil_canonical := PyamgV.ConvX.CRatInst.toCsrXC_lil_canonical
/-- the pairwise path with `m` matchings returns a well-formed `n x k` prolongator, `k < n` -/
restate pairwise_matchings_step_spec := PyamgV.CanonM.pwMRaw_spec
/-- with one matching it is E41's path -/
restate pairwise_one_matching_same := PyamgV.CanonM.pwMRaw_one
/-- on canonical input without stored zeros the step behind the canonicaliser is the array-level step -/
restate pairwise_matchings_step_raw := PyamgV.CanonM.pwMStep_eq_raw
/-- `PStepOK` discharged for any number of matchings ... -/
restate pairwise_matchings_pstep_ok := PyamgV.CanonM.pwMStep_ok
/-- ... hence `hierarchy_format_independent` without hypothesis for the DEFAULT options of `pairwise_solver` (`m = 2`): any two
stored forms of one matrix / any two of the seven input formats give level by level the same dense meaning -/
restate pairwise_matchings_hierarchy_format_independent := PyamgV.CanonM.pairwiseM_hierarchy_format_independent
restate pairwise_matchings_hierarchy_input_independent := PyamgV.CanonM.pairwiseM_hierarchy_input_independent
restate pairwise_matchings_hierarchy_input_independent_all := PyamgV.CanonM.pairwiseM_hierarchy_input_independentX

/-! non-vacuity -/
section spmm_examples
open PyamgV.Spmm
/-- `[[0, 2, 0], [-3, 0, 4]]` as COO with the duplicate `(1, 2)`: 1 + 3, an explicit zero at `(0, 0)` -/
def cooX : Input CRat := .coo ⟨2, 3, #[1, 0, 1, 1, 0], #[2, 1, 2, 0, 0], #[⟨1,0⟩, ⟨2,0⟩, ⟨3,0⟩, ⟨-3,0⟩, ⟨0,0⟩]⟩
def denseX : Input CRat := .dense ⟨2, 3, #[⟨0,0⟩, ⟨2,0⟩, ⟨0,0⟩, ⟨-3,0⟩, ⟨0,0⟩, ⟨4,0⟩]⟩
def cscX : Input CRat := .csc ⟨2, 3, #[0, 1, 2, 3], #[1, 0, 1], #[⟨-3,0⟩, ⟨2,0⟩, ⟨4,0⟩]⟩
def bsrX : Input CRat := .bsr ⟨2, 3, 2, 3, #[0, 1], #[0], #[⟨0,0⟩, ⟨2,0⟩, ⟨0,0⟩, ⟨-3,0⟩, ⟨0,0⟩, ⟨4,0⟩]⟩
example : cooX.wf = true ∧ denseX.wf = true ∧ cscX.wf = true ∧ bsrX.wf = true := by decide
-- what SciPy returns for `.tocsr()`: the explicit zero of the COO input is kept, the dense one is dropped
example : (toCsrC cooX).aj = #[0, 1, 0, 2] ∧ (toCsrC cooX).ax = #[⟨0,0⟩, ⟨2,0⟩, ⟨-3,0⟩, ⟨4,0⟩] := by decide +kernel
example : (toCsrC denseX).aj = #[1, 0, 2] ∧ (toCsrC bsrX).aj = #[0, 1, 2, 0, 1, 2] := by decide +kernel
-- four stored patterns, one dense meaning
example : toDenseC (toCsrC cooX) = toDenseC (toCsrC denseX) ∧ toDenseC (toCsrC cscX) = toDenseC (toCsrC denseX)
    ∧ toDenseC (toCsrC bsrX) = toDenseC (toCsrC denseX) := by decide +kernel
-- the loop with the pairwise step on `tridiag(-1, 2, -1)` of size 4 given dense and as COO with a split entry:
-- three levels of sizes 4, 2, 1 (coarsest first) with the same dense meanings `[2]`, `[[2,-1],[-1,2]]`, ...
def lapDense : Input CRat := .dense ⟨4, 4, #[⟨2,0⟩, ⟨-1,0⟩, ⟨0,0⟩, ⟨0,0⟩, ⟨-1,0⟩, ⟨2,0⟩, ⟨-1,0⟩, ⟨0,0⟩,
  ⟨0,0⟩, ⟨-1,0⟩, ⟨2,0⟩, ⟨-1,0⟩, ⟨0,0⟩, ⟨0,0⟩, ⟨-1,0⟩, ⟨2,0⟩]⟩
def lapCoo : Input CRat := .coo ⟨4, 4, #[3, 0, 0, 1, 1, 1, 2, 2, 2, 3, 0], #[3, 0, 1, 0, 1, 2, 1, 2, 3, 2, 0],
  #[⟨2,0⟩, ⟨1,0⟩, ⟨-1,0⟩, ⟨-1,0⟩, ⟨2,0⟩, ⟨-1,0⟩, ⟨-1,0⟩, ⟨2,0⟩, ⟨-1,0⟩, ⟨-1,0⟩, ⟨1,0⟩]⟩
example : ((PyamgV.Coarsen.build (fun A => A.rows) (gstep id pairStep) 10 0 10 [toCsrC lapDense]).map toDenseC
    = (PyamgV.Coarsen.build (fun A => A.rows) (gstep id pairStep) 10 0 10 [toCsrC lapCoo]).map toDenseC)
    ∧ (PyamgV.Coarsen.build (fun A => A.rows) (gstep id pairStep) 10 0 10 [toCsrC lapCoo]).map (fun A => A.rows) = [1, 2, 4]
    ∧ ((PyamgV.Coarsen.build (fun A => A.rows) (gstep id pairStep) 10 0 10 [toCsrC lapCoo]).map toDenseC).take 2
        = [#[⟨2,0⟩], #[⟨2,0⟩, ⟨-1,0⟩, ⟨-1,0⟩, ⟨2,0⟩]] := by
  decide +kernel
end spmm_examples
section canon_examples
open PyamgV.Spmm PyamgV.Canon
/-- `[[2, 0], [0, 5]]` stored unsorted with a cancelling duplicate `(0, 1)`: 1 - 1, and canonically -/
def messyA : Csr CRat := ⟨2, 2, #[0, 3, 4], #[1, 0, 1, 1], #[⟨1,0⟩, ⟨2,0⟩, ⟨-1,0⟩, ⟨5,0⟩]⟩
def tidyA : Csr CRat := ⟨2, 2, #[0, 1, 2], #[0, 1], #[⟨2,0⟩, ⟨5,0⟩]⟩
example : messyA.wf = true ∧ isCanonicalC messyA = false ∧ isCanonicalC tidyA = true ∧ noStoredZerosC tidyA = true := by
  decide +kernel
-- `sum_duplicates()` keeps the cancelled entry as a stored zero, `eliminate_zeros()` drops it: the canonical form
example : (canonSDC messyA).aj = #[0, 1, 1] ∧ (canonSDC messyA).ax = #[⟨2,0⟩, ⟨0,0⟩, ⟨5,0⟩]
    ∧ (canonNZC messyA).ap = tidyA.ap ∧ (canonNZC messyA).aj = tidyA.aj ∧ (canonNZC messyA).ax = tidyA.ax := by decide +kernel
-- the COO and the dense input of the E27 examples have the same meaning but not the same stored pattern (the COO
-- input stores a zero at (0, 0)): different arrays; without that triple the arrays are identical
def cooX' : Input CRat := .coo ⟨2, 3, #[1, 0, 1, 1], #[2, 1, 2, 0], #[⟨1,0⟩, ⟨2,0⟩, ⟨3,0⟩, ⟨-3,0⟩]⟩
example : (toCsrC cooX).aj ≠ (toCsrC denseX).aj ∧ (toCsrC cooX').ap = (toCsrC denseX).ap
    ∧ (toCsrC cooX').aj = (toCsrC denseX).aj ∧ (toCsrC cooX').ax = (toCsrC denseX).ax
    ∧ (toCsrC cooX').aj = (toCsrC cscX).aj ∧ (toCsrC cooX').ax = (toCsrC cscX).ax := by decide +kernel
-- the pairwise step on `tridiag(-1, 2, -1)` of size 4, stored canonically and unsorted with a split entry: the
-- array-level path pairs (0, 1), (2, 3) on both here; behind the canonicaliser the arrays it sees are the same
def lapQ : Csr Rat := ⟨4, 4, #[0, 2, 5, 8, 10], #[0, 1, 0, 1, 2, 1, 2, 3, 2, 3], #[2, -1, -1, 2, -1, -1, 2, -1, -1, 2]⟩
def lapQmessy : Csr Rat := ⟨4, 4, #[0, 3, 6, 9, 11], #[1, 0, 0, 2, 1, 0, 3, 2, 1, 3, 2], #[-1, 1, 1, -1, 2, -1, -1, 2, -1, 2, -1]⟩
example : (pwStep "min" (1 / 1000000) (1 / 4) lapQ).map (fun P => (P.rows, P.cols, P.aj)) = some (4, 2, #[0, 0, 1, 1])
    ∧ (canonNZ lapQmessy).ap = (canonNZ lapQ).ap ∧ (canonNZ lapQmessy).aj = (canonNZ lapQ).aj
    ∧ (canonNZ lapQmessy).ax = (canonNZ lapQ).ax ∧ (canonNZ lapQ).aj = lapQ.aj := by decide +kernel
end canon_examples
section e54_examples
open PyamgV.Spmm PyamgV.Canon PyamgV.ConvX PyamgV.CanonM
/-- `[[0, 1, 0, 0], [4, 0, 3, 0], [0, 5, 0, 9]]` as DIA with `L = 5 > cols`, offsets unsorted `[1, -1]` and junk in the padding:
`data[0, 0] = 5` belongs to row -1, `data[0, 4] = 7` to column 4, `data[1, 3] = data[1, 4] = 8` to rows 4 and 5 -/
def diaX : InputX CRat := .dia ⟨3, 4, 5, #[1, -1], #[⟨5,0⟩, ⟨1,0⟩, ⟨3,0⟩, ⟨9,0⟩, ⟨7,0⟩, ⟨4,0⟩, ⟨5,0⟩, ⟨0,0⟩, ⟨8,0⟩, ⟨8,0⟩]⟩
/-- the same matrix as LIL with an explicit zero at (2, 2), and the same as a dense array -/
def lilX : InputX CRat := .lil ⟨3, 4, #[[1], [0, 2], [1, 2, 3]], #[[⟨1,0⟩], [⟨4,0⟩, ⟨3,0⟩], [⟨5,0⟩, ⟨0,0⟩, ⟨9,0⟩]]⟩
def denseX' : InputX CRat := .base (.dense ⟨3, 4, #[⟨0,0⟩, ⟨1,0⟩, ⟨0,0⟩, ⟨0,0⟩, ⟨4,0⟩, ⟨0,0⟩, ⟨3,0⟩, ⟨0,0⟩, ⟨0,0⟩, ⟨5,0⟩, ⟨0,0⟩, ⟨9,0⟩]⟩)
example : diaX.wf = true ∧ lilX.wf = true ∧ denseX'.wf = true := by decide
-- what SciPy returns: DIA sorted by column, the padding (and the stored zero `data[1, 2]`) gone; LIL keeps its explicit zero
example : (toCsrXC diaX).ap = #[0, 1, 3, 5] ∧ (toCsrXC diaX).aj = #[1, 0, 2, 1, 3]
    ∧ (toCsrXC diaX).ax = #[⟨1,0⟩, ⟨4,0⟩, ⟨3,0⟩, ⟨5,0⟩, ⟨9,0⟩] := by decide +kernel
example : (toCsrXC lilX).aj = #[1, 0, 2, 1, 2, 3] ∧ isCanonicalC (toCsrXC lilX) = true
    ∧ noStoredZerosC (toCsrXC lilX) = false := by decide +kernel
-- DIA and dense input reach CSR as identical arrays; all three have the same dense meaning
example : (toCsrXC diaX).ap = (toCsrXC denseX').ap ∧ (toCsrXC diaX).aj = (toCsrXC denseX').aj
    ∧ (toCsrXC diaX).ax = (toCsrXC denseX').ax ∧ toDenseC (toCsrXC lilX) = toDenseC (toCsrXC denseX') := by decide +kernel
-- two matchings on `tridiag(-1, 2, -1)` of size 4 (the docstring example of `pairwise_aggregation`): one aggregate; P is 4 x 1
example : (pwMRaw 2 "min" (1 / 1000000) (1 / 4) lapQ).map (fun P => (P.rows, P.cols, P.aj)) = some (4, 1, #[0, 0, 0, 0])
    ∧ (pwMRaw 1 "min" (1 / 1000000) (1 / 4) lapQ).map (fun P => (P.rows, P.cols, P.aj)) = some (4, 2, #[0, 0, 1, 1])
    ∧ (pwMStep 2 "min" (1 / 1000000) (1 / 4) lapQmessy).map (fun P => P.aj) = some #[0, 0, 0, 0] := by decide +kernel
end e54_examples

open PyamgV.C15 in
/-- a symbolic coarse solver: `factor = id`, `apply f b = (f, b)` -/
def demoOps : Ops Nat (Nat × Nat) Nat :=
  { nnz := fun m => m, factor := fun m => m, apply := fun f b => (f, b.2), direct := fun m b => (100 + m, b.2),
    zero := fun _ => (0, 0) }

open PyamgV.C15 in
example : (grun demoOps .direct none [(3, (0, 7)), (3, (0, 8)), (3, (0, 9))]).2 = [(3, 7), (3, 8), (3, 9)] := by decide
open PyamgV.C15 in
example : gcount demoOps .direct none [(3, (0, 7)), (3, (0, 8)), (3, (0, 9))] = 1 := by decide
open PyamgV.C15 in
/-- outside the hypothesis (a different matrix after the first call) the stale factors answer: the
hypothesis `∀ e ∈ hist, e.1 = A` is needed -/
example : (grun demoOps .direct none [(3, (0, 7)), (4, (0, 8))]).2 = [(3, 7), (3, 8)] := by decide
open PyamgV.C15 in
/-- a first call with an empty matrix caches nothing -/
example : (grun demoOps .direct none [(0, (0, 7)), (4, (0, 8))]) = (some 4, [(0, 0), (4, 8)]) := by decide
open PyamgV.C15.Store in
example : (run init (build .air .csr true true 2)).targets = ["D", "L1"] := by decide
open PyamgV.C15.Store in
example : (run init (build .rs .bsr true false 1)).levels = [2, 3] := by decide
open PyamgV.C15.Store in
/-- a `sort_indices()` on the finest level of an aliased build does reach the user's object -/
example : (run init (build .sa .csr true false 1 ++ [.sortLevel 0])).layout = [0] := by decide

/-! ### interface facts regenerated from the working tree on every run (translator tie) -/
/-- `solve(self, b, x0=None, tol=1e-5, maxiter=100, cycle='V', accel=None, callback=None, residuals=None,
cycles_per_level=1, return_info=False)`: no further argument carries state into a call -/
theorem generated_solveDefaults : PyamgV.Facts.solveDefaults = PyamgV.Generated.solveDefaults := by decide
theorem generated_aspreconditionerDefaults :
    PyamgV.Facts.aspreconditionerDefaults = PyamgV.Generated.aspreconditionerDefaults := by decide
theorem generated_coarseGridSolverDefaults :
    PyamgV.Facts.coarseGridSolverDefaults = PyamgV.Generated.coarseGridSolverDefaults := by decide

end PyamgV.Props.C15
