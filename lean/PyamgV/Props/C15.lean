import PyamgV.Props.Restate
import PyamgV.Model.Facts
import PyamgV.Generated.Facts
import PyamgV.Proofs.Cache
import PyamgV.Proofs.C15Reuse
import PyamgV.Proofs.C15Store

/-! # C15 — setup is pure and reproducible; built solvers are reusable

Models (all executed by the driver against the working tree on every run):
* `C15.gcall` / `grun` (`c15_cache`): the object returned by `coarse_grid_solver` as a state machine
  (factor on first use, `nnz == 0` shortcut, stateless kinds), compared call by call -- cached state,
  number of factorisations, which factorisation answered -- with the real object on arbitrary histories;
* `C15.cycS` / `runCalls` (`c15_trace`): `__solve` (V / W / F / AMLI) and histories of `solve` calls with
  the coarse-solver object and a lazily parameterised smoother (`memoLevel`) threaded through, compared
  with the real number of coarse-solver calls and factorisations per call and with the presence of the
  lazily created level attribute after every call;
* `C15.Store` (`c15_store`): which object `levels[0].A` is and where AIR's in-place filtering lands.

The numerical content of smoothers, transfer operators and factorisations is a parameter of the
model; that those are functions of their arguments on the real code (no hidden state, no write into a
level operator) is what the used-versus-fresh search observes. -/
namespace PyamgV.Props.C15

/-- coarse-solver object, every solver kind, `nnz == 0` shortcut included: in a history that always
passes the same matrix every answer is the one an object created for that call alone gives -/
restate coarse_reuse := PyamgV.C15.grun_same_matrix
/-- the answer to the last call is independent of the calls before it -/
restate coarse_last_independent := PyamgV.C15.glast_independent
/-- such a history factorises exactly once if the solver is direct, the matrix has stored entries and
the history is not empty, and never otherwise -/
restate coarse_factor_once := PyamgV.C15.gcount_same_matrix
/-- a V / W / F / AMLI cycle of any depth run against a stateful coarse solver and stateful smoothers
returns what the cycle with the plain functions returns, and keeps the state invariant -/
restate cycle_state_free := PyamgV.C15.cycS_eq_cycP
/-- a memo cell ("compute on first use, keep as attribute") that is empty or holds `compute k` returns
`compute k` and stays so -/
restate memo_sound := PyamgV.C15.memo_sound
/-- a smoother that fetches its parameters through a memo cell at every call computes a function of `(x, b)` -/
restate memo_smoother := PyamgV.C15.memoSmoother_spec
/-- every call of a history of `solve` calls returns what the same call returns on a never-used solver -/
restate solve_history := PyamgV.C15.runCalls_eq
/-- general form: coarse solver and smoothers with any state; under an invariant that holds initially and
makes each of them a function of its arguments, the result of a `solve` call after any finite history is
the result on the hierarchy of plain functions -/
restate solver_reusable_gen := PyamgV.C15.solver_reusable_gen
/-- state-free smoothers, any coarse-solver kind of `coarse_grid_solver`: the result of a `solve` call after
any finite history equals `evalCall (fresh ..)`: a function of the call and the hierarchy alone -/
restate solver_reusable := PyamgV.C15.solver_reusable
/-- the same with smoother parameters that are created lazily inside the first smoothing call
(`strength_based_schwarz`) -/
restate solver_reusable_memo := PyamgV.C15.solver_reusable_memo
/-- two histories, same last call: identical answers -/
restate solve_last_independent := PyamgV.C15.solve_last_independent
/-- a fresh solver is the first call of the empty history -/
restate fresh_solver_eq := PyamgV.C15.fresh_solver_eq
/-- store model: no sequence of constructor steps writes into the user's matrix or candidates -/
restate store_pure := PyamgV.C15.Store.store_pure
/-- store model: `levels[0].A` is the user's own object iff the format is accepted and the dtype is
floating point (purity rests on "never written", not on "always copied") -/
restate finest_alias_iff := PyamgV.C15.Store.finest_alias_iff
/-- store model: in-place re-ordering of index arrays (`sort_indices()` in smoother set-up, `get_diagonal`,
strength routines) can reach the user's arrays only when the finest level is the user's own object -/
restate layout_user_only_if_alias := PyamgV.C15.Store.layout_user_only_if_alias
/-- the design-round statements on the bare cache (`Proofs/Cache.lean`) -/
restate cache_run_same_matrix := PyamgV.Cache.run_same_matrix
restate cache_last_independent := PyamgV.Cache.last_independent

/-! non-vacuity -/
open PyamgV.C15 in
/-- a symbolic coarse solver: `factor = id`, `apply f b = (f, b)` -/
def demoOps : Ops Nat (Nat × Nat) Nat :=
  { nnz := fun m => m, factor := fun m => m, apply := fun f b => (f, b.2), direct := fun m b => (100 + m, b.2),
    zero := fun _ => (0, 0) }

open PyamgV.C15 in
example : (grun demoOps .direct none [(3, (0, 7)), (3, (0, 8)), (3, (0, 9))]).2 = [(3, 7), (3, 8), (3, 9)] := by decide
open PyamgV.C15 in
example : gcount demoOps .direct none [(3, (0, 7)), (3, (0, 8)), (3, (0, 9))] = 1 := by decide
open PyamgV.C15 in
/-- outside the hypothesis (a different matrix after the first call) the stale factors answer: the
hypothesis `∀ e ∈ hist, e.1 = A` is needed -/
example : (grun demoOps .direct none [(3, (0, 7)), (4, (0, 8))]).2 = [(3, 7), (3, 8)] := by decide
open PyamgV.C15 in
/-- a first call with an empty matrix caches nothing -/
example : (grun demoOps .direct none [(0, (0, 7)), (4, (0, 8))]) = (some 4, [(0, 0), (4, 8)]) := by decide
open PyamgV.C15.Store in
example : (run init (build .air .csr true true 2)).targets = ["D", "L1"] := by decide
open PyamgV.C15.Store in
example : (run init (build .rs .bsr true false 1)).levels = [2, 3] := by decide
open PyamgV.C15.Store in
/-- a `sort_indices()` on the finest level of an aliased build does reach the user's object -/
example : (run init (build .sa .csr true false 1 ++ [.sortLevel 0])).layout = [0] := by decide

/-! ### interface facts regenerated from the working tree on every run (translator tie) -/
/-- `solve(self, b, x0=None, tol=1e-5, maxiter=100, cycle='V', accel=None, callback=None, residuals=None,
cycles_per_level=1, return_info=False)`: no further argument carries state into a call -/
theorem generated_solveDefaults : PyamgV.Facts.solveDefaults = PyamgV.Generated.solveDefaults := by decide
theorem generated_aspreconditionerDefaults :
    PyamgV.Facts.aspreconditionerDefaults = PyamgV.Generated.aspreconditionerDefaults := by decide
theorem generated_coarseGridSolverDefaults :
    PyamgV.Facts.coarseGridSolverDefaults = PyamgV.Generated.coarseGridSolverDefaults := by decide

end PyamgV.Props.C15
