import PyamgV.Props.Restate
import PyamgV.Proofs.Direct
import PyamgV.Proofs.Classical
import PyamgV.Proofs.ClassicalMod
import PyamgV.Proofs.OnePoint
import PyamgV.Proofs.C11Kernel
import PyamgV.Proofs.C11Thm
import PyamgV.Proofs.C11Mod
import PyamgV.Proofs.C11Air
import PyamgV.Proofs.C11Refine
import PyamgV.Proofs.ExtC11RefineOnePoint
import PyamgV.Proofs.ExtC11RefineFF
import PyamgV.Proofs.ExtC11RefineDirect
import PyamgV.Proofs.ExtC11RefineClassicalRows
import PyamgV.Proofs.ExtC11RefineMod
import PyamgV.Proofs.ExtC11RefineAir
import PyamgV.Proofs.ExtGlueApi
import PyamgV.Proofs.ExtGlueTheta
import PyamgV.Proofs.ExtC11XBlockSolve
import PyamgV.Proofs.ExtC11XApi
import PyamgV.Proofs.ExtC11XAirGmres
import Mathlib.Analysis.Real.Sqrt
import Mathlib.Algebra.Order.Ring.Rat
import Mathlib.Algebra.Field.Rat
import PyamgV.Proofs.ExtPy3ClassicalInterp

/-! # C11 — classical interpolation and ideal restriction satisfy their defining equations

Definitions the theorems are about (all executed by the driver on `Rat` and compared with the
rebuilt kernels and the public functions of `pyamg/classical/interpolate.py` on every run):

* `C11.directP`, `C11.classicalP`, `C11.classicalModP`, `C11.onePointP`, `C11.injectionP`
  (Proofs/C11Kernel.lean) — the whole operators: row bodies `Direct.directRow`,
  `Classical.classicalRow`, `Classical.classicalRowM` (after `C11.removeFFRow`),
  `OnePoint.onePoint`, plus the coarse renumbering `C11.cidx`; over any ordered field;
* `C11M.airRow` (Model/C11.lean) — one row of `approx_ideal_restriction_pass2` with an exact,
  verified local solve, on the CSR arrays themselves.

Matrices are arbitrary (rows as (column, value) lists in storage order, any order, any size);
splittings are arbitrary predicates `isC`.  M-matrix / zero-row-sum / non-degeneracy
hypotheses appear exactly where the property states them. -/
namespace PyamgV.Props.C11
open PyamgV

/-! ## coarse renumbering and identity rows -/

/-- distinct C-points get distinct coarse columns -/
restate coarse_index_injective := PyamgV.C11.cidx_inj
/-- a C-point below `n` gets a coarse column below `nc = #C-points below n` -/
restate coarse_index_in_range := PyamgV.C11.cidx_lt_nc
/-- direct, classical, modified classical, one-point, injection: every coarse point's row is the
single entry `1` in its own coarse column -/
restate coarse_rows_identity := PyamgV.C11.coarse_rows_identity

/-- the array `map[]` computed by the kernels' tail loop (array model `C11M.cmapArr`) is `cidx`
on every valid 0/1 splitting -/
restate kernel_map_is_coarse_index := PyamgV.C11M.cmapArr_spec
/-- the index arithmetic of `injection_interpolation` (array model `C11M.injection`):
`rowptr[j] = cidx j`, `colinds = 0..nc-1` -/
restate injection_arrays_spec := PyamgV.C11M.injection_spec

/-- `rs_classical_interpolation_pass1` / `rs_direct_interpolation_pass1` (array model
`C11M.classicalPass1`): `Pp[j] = Σ_{i<j} rowLen i` … -/
restate pass1_row_pointer_spec := PyamgV.C11M.classicalPass1_spec
/-- … where `rowLen i` is the length of row `i` of the proof-side classical and direct operators:
the row pointer of pass 1 fits the rows written by pass 2 -/
restate pass1_sizes_fit_rows := PyamgV.C11M.rowLen_classical

/-! ## the whole operators are the row bodies plus renumbering -/

restate direct_operator_row := PyamgV.C11.directP_row
restate classical_operator_row := PyamgV.C11.classicalP_row
restate modified_operator_row := PyamgV.C11.classicalModP_row

/-! ## support: weights only on strongly connected coarse points -/

restate direct_support := PyamgV.C11.directP_support
restate classical_support := PyamgV.C11.classicalP_support
restate modified_support := PyamgV.C11.classicalModP_support
restate direct_row_support := PyamgV.Direct.directRow_support
restate classical_row_support := PyamgV.Classical.classicalRow_support

/-! ## row sums on zero-row-sum M-matrix rows, constants -/

/-- direct interpolation -/
restate direct_rowsum := PyamgV.C11.directP_rowsum
/-- classical (unmodified): needs non-zero inner/outer denominators … -/
restate classical_rowsum := PyamgV.C11.classicalP_rowsum
/-- … which hold on M-matrices as soon as every strong F-neighbour shares a strong C-point with the row -/
restate classical_rowsum_of_common_C := PyamgV.C11.classicalP_rowsum_of_commonC
/-- modified classical: for EVERY splitting (the F–F removal establishes the side conditions) -/
restate modified_rowsum_any_splitting := PyamgV.C11.classicalModP_rowsum
/-- weights summing to one ⇒ constants are interpolated exactly -/
restate constants_interpolated := PyamgV.C11.applyRow_const
restate direct_row_rowsum := PyamgV.Direct.directRow_rowsum
restate classical_row_rowsum := PyamgV.Classical.classicalRow_rowsum
restate modified_row_rowsum := PyamgV.Classical.classicalRowM_rowsum

/-! ## published formulas on M-matrix rows -/

/-- `w_ij = -(Σ_{k≠i} a_ik / Σ_{k∈C_i^s} a_ik) a_ij / a_ii` -/
restate direct_row_formula := PyamgV.Direct.directRow_formula
/-- De Sterck–Falgout–Nolting–Yang eq. (8) -/
restate classical_row_formula := PyamgV.Classical.classicalRow_formula
/-- on M-matrix rows the modified row (eq. (9)) is eq. (8) on the strength row without the
F–F connections lacking a common C-point -/
restate modified_row_eq_classical := PyamgV.Classical.classicalRowM_eq
/-- eq. (9) in closed form: strong C-points untouched, F-neighbours without a common C-point moved
to the weak set -/
restate modified_formula := PyamgV.C11.modified_formula
restate modified_keeps_strong_C := PyamgV.C11.strongC_removeFFRow
restate modified_keeps_F_with_common_C := PyamgV.C11.strongF_removeFFRow

/-! ## one-point and injection -/

restate one_point_row_spec := PyamgV.OnePoint.onePoint_spec
/-- F-row: none iff no strongly connected C-point, else one entry on a strongest one -/
restate one_point_spec := PyamgV.C11.onePointP_spec
restate injection_spec := PyamgV.C11.injectionP_spec

/-! ## approximate ideal restriction -/

/-- the neighbourhood consists of F-points within strength distance `degree` of the C-point -/
restate air_neighbourhood_sound := PyamgV.C11M.nbrF_sound
/-- … and contains every such point -/
restate air_neighbourhood_iff := PyamgV.C11M.nbrF_iff
/-- structure, identity block on the C-points, `(R A)[c, f] = 0` on the pattern -/
restate air_row_spec := PyamgV.C11M.airRow_spec
restate air_ra_entry := PyamgV.C11M.raEntry_eq


/-! ## extension E6: the array models ARE the proof-side operators

`C11X.rowAt da db Pp Pj Px i` is row `i` of a CSR triple (entries `Pp[i] .. Pp[i+1]-1`).  All
statements are for valid 0/1 splittings and strength matrices whose columns are below `n` (what
the correspondence generator produces).  Where the C++ divides by zero the array models return
`none`; the `…OptRow` rows are the proof-side rows with exactly that guard, and the
`…_guarded_rows` theorems say: same coarse columns, and the same weight wherever the model
returns a value. -/

/-- `one_point_interpolation` (array model `C11M.onePoint`): `Pp` is the prefix sum of the row
lengths of `onePointP`, and row `i` of `(Pp, Pj, Px)` is row `i` of `onePointP` -/
restate one_point_array_refines := PyamgV.C11X.onePoint_refines

/-- `remove_strong_FF_connections` (array model `C11M.removeFF`), entry by entry: position `jj` of
row `row` is zeroed iff `row` and its column are F-points and the kernel's `dependence` flag is
off, and keeps its value otherwise (CSR with monotone row pointer) -/
restate remove_FF_array_entry := PyamgV.C11X.removeFF_entry
/-- the kernel's `dependence` flag is the proof-side `commonC` of the two strength rows -/
restate remove_FF_dependence_is_commonC := PyamgV.C11X.ffDep_eq_commonC
/-- F-row after `remove_strong_FF_connections` + `eliminate_zeros` = `removeFFRow` + `eliminate_zeros` -/
restate remove_FF_array_row := PyamgV.C11X.removeFF_row
/-- … = `removeFFRow` itself when the strength row has no stored zeros -/
restate remove_FF_array_row_nz := PyamgV.C11X.removeFF_row_nz

/-- `rs_direct_interpolation_pass1/2` (array model `N.directInterp`): row pointer = prefix sums of
the row lengths of `directP`; row `i` = guarded row `directPOptRow` -/
restate direct_array_refines := PyamgV.C11X.directInterp_refines
/-- the guarded rows have the columns of `directP` and its weights wherever defined -/
restate direct_guarded_rows := PyamgV.C11X.directPOptRow_forall₂
/-- nothing is guarded away when the two denominators are non-zero -/
restate direct_guard_defined := PyamgV.C11X.directRowOpt_defined

/-- `rs_classical_interpolation_pass2` (array model `C11M.classicalPass2`, either variant): under a
row pointer that is the prefix sum of the row lengths (as pass 1 produces, `classicalPass1_off`),
row `i` is the list of entries the kernel computes for row `i`, columns renumbered -/
restate classical_pass2_array_rows := PyamgV.C11X.classicalPass2_rows
/-- `modified = false`: row `i` of the array models of pass 1 + pass 2 = guarded row of `classicalP` -/
restate classical_array_refines := PyamgV.C11X.classicalPass2_refines
restate classical_guarded_rows := PyamgV.C11X.classicalPOptRow_forall₂
/-- no division by zero under the non-degeneracy hypotheses of `classical_rowsum` -/
restate classical_guard_defined := PyamgV.C11X.classicalPOptRow_defined

/-- `modified = true`: row `i` of the array models of pass 1 + pass 2 on the strength matrix handed to
the kernel = guarded row body `classicalRowM` -/
restate modified_array_refines := PyamgV.C11X.classicalPass2_refines_modified
restate modified_row_guarded := PyamgV.C11X.cOptRowM_forall₂
restate modified_row_guard_defined := PyamgV.C11X.cOptRowM_defined
/-- when that strength matrix has the rows `removeFFRow`, these are the rows of `classicalModP` -/
restate modified_guarded_rows := PyamgV.C11X.classicalModPOptRow_forall₂
/-- end to end: array model of `remove_strong_FF_connections`, `eliminate_zeros`, array models of
pass 1 / pass 2 (`modified = true`) vs `classicalModP` on the original strength matrix -/
restate modified_kernels_end_to_end := PyamgV.C11X.classicalMod_kernels_refine

/-- `approx_ideal_restriction_pass1` (array model `C11M.airPass1`): `Rp[j] = Σ_{t<j} (|N(c_t)| + 1)` -/
restate air_pass1_row_pointer_spec := PyamgV.C11X.airPass1_spec
/-- `approx_ideal_restriction_pass2` (array model `C11M.airPass2`): its rows are the rows `airRow` of
the C-points in the order of `Cpts`, each of the length pass 1 reserved -/
restate air_pass2_rows_are_air_rows := PyamgV.C11X.airPass2_rows

/-! ## extension E30: the SciPy glue between the kernels, and the public functions end to end

`Glue.*` (Model/ExtGlue.lean) are executable models of `eliminate_zeros`, `sort_indices`,
`sum_duplicates`, `data[:] = 1`, `abs` / `scale_rows_by_largest_entry`, `C.multiply(A)` (both SciPy
branches) on the CSR arrays, compared array for array with SciPy on every run (`ext_glue_*`);
`Glue.row A i` is row `i` as (column, value) list (`= C11M.rowOf A i`), `Glue.dval r j` the sum of the
stored entries of column `j` (the dense meaning).  `Glue.apiClassical` / `Glue.apiDirect` compose them
with the kernels' array models exactly as `classical_interpolation` / `direct_interpolation`
(theta = None) do (`ext_c11_api_classical`, `ext_c11_api_direct`). -/

/-- every glue model builds its result row by row; row `i` of `ofRows n rows` is `rows i` -/
restate glue_of_rows_row := PyamgV.Glue.ofRows_row
/-- `eliminate_zeros`: the stored non-zeros of every row, in storage order -/
restate glue_eliminate_zeros_row := PyamgV.Glue.eliminateZeros_row
restate glue_eliminate_zeros_dense := PyamgV.Glue.eliminateZeros_dense
restate glue_eliminate_zeros_no_stored_zero := PyamgV.Glue.eliminateZeros_nz
/-- `sort_indices`: a permutation of every row into ascending columns, same matrix -/
restate glue_sort_indices_spec := PyamgV.Glue.sortIndices_spec
restate glue_sort_stable := PyamgV.Glue.sortRow_stable
restate glue_sort_sorted_row_unchanged := PyamgV.Glue.sortRow_of_sorted
/-- `sum_duplicates`: canonical result, same matrix -/
restate glue_sum_duplicates_spec := PyamgV.Glue.sumDuplicates_spec
restate glue_sum_duplicates_canonical_unchanged := PyamgV.Glue.sumDuplicates_canonical_row
/-- `csr_has_canonical_format` (the test `multiply` dispatches on) -/
restate glue_canonical_iff := PyamgV.Glue.isCanonical_iff
/-- `C.multiply(A)`, canonical branch (two-pointer merge) = entrywise product of the rows -/
restate glue_multiply_canonical_row := PyamgV.Glue.multiply_row_canonical
/-- `C.multiply(A)`, either branch: the dense meaning is the entrywise product -/
restate glue_multiply_dense := PyamgV.Glue.multiply_dense
/-- tail of `classical_strength_of_connection` (`abs`, `scale_rows_by_largest_entry`, `eliminate_zeros`):
exactly the kernel's non-zero entries, in order -/
restate glue_strength_tail_row := PyamgV.Glue.strengthTail_row
/-- the matrix `classical_interpolation` hands to pass 1 / pass 2 (copy, eliminate_zeros,
[remove_strong_FF_connections], eliminate_zeros, data = 1, multiply(A)) -/
restate api_strength_row := PyamgV.Glue.apiStrength_row
/-- … is the hypothesis `hS'` of `modified_kernels_end_to_end` -/
restate api_strength_discharges_hS' := PyamgV.Glue.apiStrength_discharges_hS'
/-- **`classical_interpolation(A, C, splitting, modified=True)` as one model vs `classicalModP`** -/
restate api_classical_modified_end_to_end := PyamgV.Glue.apiClassical_modified_refines
/-- **`classical_interpolation(A, C, splitting, modified=False)` as one model vs `classicalP`** -/
restate api_classical_unmodified_end_to_end := PyamgV.Glue.apiClassical_unmodified_refines
/-- **`direct_interpolation(A, C, splitting)` as one model vs `directP`** -/
restate api_direct_end_to_end := PyamgV.Glue.apiDirect_refines

/-! ### `theta` given: the strength matrix is recomputed (kernel + its SciPy tail), no hypothesis on `C` left -/

/-- `classical_strength_of_connection(A, theta, norm)` (model `Glue.apiSoc`), row `i`: the kernel's
entries with non-zero value, in storage order, positive values -/
restate api_soc_row := PyamgV.Glue.apiSoc_row
/-- it satisfies the hypotheses of the `api_*_end_to_end` theorems (canonical, columns below `n`,
inside the non-zero pattern of `A`) -/
restate api_soc_satisfies_hypotheses := PyamgV.Glue.apiSoc_hyps
/-- the strength rows the three theorems below are about: the kernel's rule on row `i` of `A`, zeros dropped -/
restate api_soc_strength_row := PyamgV.Glue.apiSoc_strength_row
restate api_classical_theta_modified_end_to_end := PyamgV.Glue.apiClassicalTheta_modified_refines
restate api_classical_theta_unmodified_end_to_end := PyamgV.Glue.apiClassicalTheta_unmodified_refines
restate api_direct_theta_end_to_end := PyamgV.Glue.apiDirectTheta_refines

/-! ## extension E49: block AIR, BSR / CSC wrappers, the GMRES local solve

`C11XB.bairRow` (Model/ExtC11XBlock.lean) is one block row of `block_approx_ideal_restriction_pass2`: the
neighbourhood of the scalar kernel on the block strength matrix, the dense local matrix `A0` and the
`blocksize` right-hand sides `b0` written with the kernel's index arithmetic, exact local solves, the drop
test `|x| > 1e-15`, the identity block; verified before it is returned (`ext_c11x_bair2`, compared with the
rebuilt kernel with QR and with GMRES local solves on every run).  `C11XA.apiInjection` / `apiOnePoint`
(Model/ExtC11XApi.lean) are the wrappers `injection_interpolation` / `one_point_interpolation` on CSR, CSC
and BSR input, returned as the arrays SciPy holds (`ext_c11x_inj`, `ext_c11x_onept`).  `C11XG.denseGmres`
(Model/ExtC11XGmres.lean) is `dense_GMRES`, run by the driver on binary64 (`ext_c11x_gmres`) and compared
with the local solves of both kernels. -/

/-- block analogue of `air_row_spec`: structure, identity block on the C-point, every entry of every
block `(R A)[c, f]`, `f` in the neighbourhood, is zero -/
restate block_air_row_spec := PyamgV.C11XB.bairRow_spec
restate block_air_identity_block := PyamgV.C11XB.ident_getD
/-- the positional writes of the kernel: `A0[(jb*bs + br)*nd + ib*bs + bc] = A[N_jb, N_ib][br, bc]` … -/
restate block_air_local_matrix_assembly := PyamgV.C11XB.assembleA0_spec
/-- … and `b0[nd*r + bi*bs + cc] = -A[c, N_bi][r, cc]` -/
restate block_air_local_rhs_assembly := PyamgV.C11XB.assembleB0_spec
/-- an exact solution of the `r`-th local system (as assembled, read column-major) annihilates row `r` of
every block `(R A)[c, N_ib]` … -/
restate block_air_exact_solve_annihilates := PyamgV.C11XB.raBlk_of_solves
/-- … so the model returns a row as soon as the `blocksize` local solves are exact and the drop test drops
only zeros: the exact-solve hypothesis in explicit form -/
restate block_air_row_of_exact_solves := PyamgV.C11XB.bairRow_of_solves

/-- every stored block of a BSR result of the two wrappers is the identity block -/
restate identity_blocks := PyamgV.C11XA.identBlocks_blk
/-- identity blocks on a pattern = pattern ⊗ I (dense meaning `Spmm.Bsr.val`) -/
restate identity_blocks_kronecker := PyamgV.C11XA.identBsr_val
/-- **`injection_interpolation` on CSR, CSC or BSR input**: entry `(I*bs + r, J*bs + c)` is `1` iff `r = c`,
`I` is a C-point and `J` its coarse index -/
restate api_injection_any_format := PyamgV.C11XA.apiInjection_val
restate api_injection_shape_only := PyamgV.C11XA.apiInjection_shape_only
/-- `one_point_interpolation` on BSR input: the index arrays are those of the scalar kernel model on the
strength matrix (`one_point_array_refines` applies to them), the data are identity blocks … -/
restate api_one_point_bsr_index_arrays := PyamgV.C11XA.apiOnePoint_bsr_index
/-- … and `P = P_scalar ⊗ I` (any format without `by_val`; BSR always) -/
restate api_one_point_kronecker := PyamgV.C11XA.apiOnePoint_val
restate api_one_point_shape_only := PyamgV.C11XA.apiOnePoint_shape_only
/-- CSC input: converted at entry … -/
restate api_one_point_csc_entry := PyamgV.C11XA.apiOnePoint_csc
restate api_injection_csc_entry := PyamgV.C11XA.apiInjection_csc
/-- … to a well-formed CSR matrix with the same dense meaning (`Spmm.val_cscToCsr`) -/
restate csc_entry_same_matrix := PyamgV.C11XA.csc_entry_same_matrix

/-- the Arnoldi loop of `dense_GMRES`: orthonormal basis and Arnoldi relation as long as it does not `break` -/
restate dense_gmres_arnoldi_invariant := PyamgV.C11XG.arn_inv
/-- the Givens sweep (done after the loop, on the whole array) and `upper_tri_solve`: the computed `y` solves
the unrotated Hessenberg system -/
restate dense_gmres_sweep_solves := PyamgV.C11XG.sweep_solves
/-- `n` orthonormal vectors of `Kⁿ` are complete -/
restate orthonormal_complete := PyamgV.C11XG.complete_of_orthonormal
/-- module level: full length, no breakdown ⇒ `B x = b` -/
restate dense_gmres_module_exact := PyamgV.C11XG.dgCore_solves
/-- the model on `Vector K n` (what the driver runs) is carried onto the module model -/
restate dense_gmres_model_hom := PyamgV.C11XG.dgCore_hom
/-- **`dense_GMRES` (the executable model, `maxiter = 0` or `≥ n`, no breakdown, exact arithmetic) returns the
exact solution of `A x = b`** — including the diagonal scaling and the `n = 1` shortcut -/
restate dense_gmres_exact := PyamgV.C11XG.denseGmres_exact
/-- the check of `air_row_spec` passes on every exact solution of the local system (whichever solver) -/
restate air_row_of_exact_solve := PyamgV.C11XG.air_row_of_exact_solve
/-- **the `use_gmres = 1` path of `approx_ideal_restriction_pass2` in exact arithmetic**: the row assembled
from the `dense_GMRES` result on the local system satisfies `(R A)[c, f] = 0` on the neighbourhood -/
restate air_row_of_gmres := PyamgV.C11XG.air_row_of_gmres

/-! ## non-vacuity

1-D Neumann Laplacian on 5 points (zero row sums), C = {0, 4}: the F-point 1 has the strong
neighbours 0 (C) and 2 (F); 2 shares no C-point with 1.  The modified operator removes that
connection and interpolates constants exactly (all hypotheses of
`modified_rowsum_any_splitting` hold); the unmodified row sums to 1/2 — the splitting violates
the common-C condition. -/
section example5
def isC5 : Nat → Bool := fun j => j == 0 || j == 4
def A5 : Nat → C11.Row ℚ := fun i =>
  [[(0, 1), (1, -1)], [(0, -1), (1, 2), (2, -1)], [(1, -1), (2, 2), (3, -1)], [(2, -1), (3, 2), (4, -1)],
   [(3, -1), (4, 1)]].getD i []
def S5 : Nat → C11.Row ℚ := fun i =>
  [[(1, -1)], [(0, -1), (2, -1)], [(1, -1), (3, -1)], [(2, -1), (4, -1)], [(3, -1)]].getD i []

example : C11.rsum ((C11.classicalModP (1 / 1000000) isC5 5 A5 S5).getD 1 []) = 1 :=
  C11.classicalModP_rowsum (1 / 1000000) isC5 5 A5 S5 (i := 1) (by decide) (by decide +kernel)
    (by decide +kernel) (by decide +kernel) (by decide +kernel) (by decide +kernel) (by decide +kernel)
    (by decide +kernel) (by decide +kernel)
example : (C11.classicalModP (1 / 1000000) isC5 5 A5 S5).getD 1 [] = [(0, 1)] := by decide +kernel
example : (C11.classicalP (1 / 1000000) isC5 5 A5 S5).getD 1 [] = [(0, 1 / 2)] := by decide +kernel
example : (C11.directP isC5 5 A5 S5).getD 1 [] = [(0, 1)] := by decide +kernel
example : (C11.onePointP isC5 5 S5).getD 3 [] = [(1, 1)] := by decide +kernel
example : (C11.onePointP isC5 5 S5).getD 2 [] = [] := by decide +kernel
/-- AIR, same matrix as CSR arrays, splitting C = {0, 2, 4}, degree 1: row of C-point 2 -/
example : C11M.airRow ⟨5, #[0, 2, 5, 8, 11, 13], #[0, 1, 0, 1, 2, 1, 2, 3, 2, 3, 4, 3, 4],
      #[1, -1, -1, 2, -1, -1, 2, -1, -1, 2, -1, -1, 1]⟩
    ⟨5, #[0, 1, 3, 5, 7, 8], #[1, 0, 2, 1, 3, 2, 4, 3], #[]⟩ #[1, 0, 1, 0, 1] 1 2
    = some [(1, 1 / 2), (3, 1 / 2), (2, 1)] := by decide +kernel
/-- the same matrices as CSR arrays: the hypotheses of the refinement theorems hold and the array
models produce the rows of the proof-side operators (F-point 1, splitting C = {0, 4}) -/
def A5c : N.Csr := ⟨5, #[0, 2, 5, 8, 11, 13], #[0, 1, 0, 1, 2, 1, 2, 3, 2, 3, 4, 3, 4],
  #[1, -1, -1, 2, -1, -1, 2, -1, -1, 2, -1, -1, 1]⟩
def S5c : N.Csr := ⟨5, #[0, 1, 3, 5, 7, 8], #[1, 0, 2, 1, 3, 2, 4, 3], #[-1, -1, -1, -1, -1, -1, -1, -1]⟩
def split5 : Array Int := #[1, 0, 0, 0, 1]
example : C11M.Valid split5 5 := by unfold C11M.Valid; decide
example : ∀ i < S5c.n, ∀ jj ∈ S5c.jjs i, N.rdN S5c.aj jj < S5c.n := by decide
example : ∀ i < S5c.n, N.rdN S5c.ap i ≤ N.rdN S5c.ap (i + 1) := by decide
example : C11X.rowAt (-1 : Int) (none : Option Rat) (C11M.classicalPass1 5 S5c split5)
    (C11M.classicalPass2 (1 / 1000000) false A5c S5c split5 (C11M.classicalPass1 5 S5c split5)).1
    (C11M.classicalPass2 (1 / 1000000) false A5c S5c split5 (C11M.classicalPass1 5 S5c split5)).2 1
    = [(0, some (1 / 2))] := by decide +kernel
example : C11X.classicalPOptRow (1 / 1000000) (C11M.isC split5) (C11M.rowOf A5c) (C11M.rowOf S5c) 1
    = [(0, some (1 / 2))] := by decide +kernel
example : N.rdQ (C11M.removeFF S5c split5) 2 = 0 ∧ N.rdQ (C11M.removeFF S5c split5) 1 = -1 := by decide +kernel
example : C11X.directPOptRow (C11M.isC split5) (C11M.rowOf A5c) (C11M.rowOf S5c) 1 = [(0, some 1)] := by
  decide +kernel
example : C11X.rowAt (0 : Int) (0 : Rat) (C11M.onePoint 5 S5c split5).1 (C11M.onePoint 5 S5c split5).2.1
    (C11M.onePoint 5 S5c split5).2.2 3 = [(1, 1)] := by decide +kernel
/-- E30: a strength matrix as a user would pass it (arbitrary values, a stored zero on the diagonal
of row 1): the hypotheses of the `api_*_end_to_end` theorems hold and the composed models return the
rows of the proof-side operators -/
def C5g : N.Csr := ⟨5, #[0, 1, 4, 6, 8, 9], #[1, 0, 1, 2, 1, 3, 2, 4, 3], #[3, 2, 0, 5, 1, 1, 4, 4, 7]⟩
example : Glue.isCanonical A5c = true ∧ Glue.isCanonical C5g = true := by decide +kernel
example : ∀ i < C5g.n, ∀ cv ∈ Glue.row C5g i, cv.1 < C5g.n := by decide +kernel
example : ∀ i < C5g.n, ∀ cv ∈ Glue.row C5g i, cv.2 ≠ 0 → C11M.entry A5c i cv.1 ≠ 0 := by decide +kernel
example : (List.range 5).map (Glue.row (Glue.strengthCsr A5c C5g)) = (List.range 5).map (Glue.row S5c) := by
  decide +kernel
example : Glue.row (Glue.apiStrength true A5c C5g split5) 1 = [(0, -1)] ∧
    Glue.row (Glue.apiStrength false A5c C5g split5) 1 = [(0, -1), (2, -1)] := by decide +kernel
example : C11X.rowAt (-1 : Int) (none : Option Rat) (Glue.apiClassical (1 / 1000000) true A5c C5g split5).1
    (Glue.apiClassical (1 / 1000000) true A5c C5g split5).2.1
    (Glue.apiClassical (1 / 1000000) true A5c C5g split5).2.2 1 = [(0, some 1)] := by decide +kernel
example : Glue.row (Glue.sumDuplicates ⟨2, #[0, 3, 4], #[1, 0, 1, 0], #[2, 5, -2, 7]⟩) 0 = [(0, 5), (1, 0)] := by
  decide +kernel
example : Glue.row (Glue.multiply ⟨1, #[0, 3], #[1, 0, 1], #[2, 5, 1]⟩ ⟨1, #[0, 2], #[0, 1], #[3, 4]⟩) 0
    = [(0, 15), (1, 12)] := by decide +kernel
/-- E30, theta given (theta = 1/4, norm 'abs', tiny = 2^-1022 replaced by 1/2^20 here): all strength is recomputed -/
example : ∀ i < A5c.n, ∀ cv ∈ Glue.row A5c i, cv.1 < A5c.n := by decide +kernel
example : C11X.rowAt (-1 : Int) (none : Option Rat)
    (Glue.apiClassicalTheta (1 / 1000000) true (1 / 1048576) (1 / 4) true A5c split5).1
    (Glue.apiClassicalTheta (1 / 1000000) true (1 / 1048576) (1 / 4) true A5c split5).2.1
    (Glue.apiClassicalTheta (1 / 1000000) true (1 / 1048576) (1 / 4) true A5c split5).2.2 1 = [(0, some 1)] := by
  decide +kernel
end example5

/-! E49 non-vacuity.  Block AIR: a 3 x 3 block matrix with 2 x 2 blocks, C = {1}, degree 1: the model returns
a row (the exact solves exist, nothing is dropped).  GMRES: the reals with `Real.sqrt` satisfy the square-root
hypotheses, and the rotation `A = [[0, -1], [1, 0]]`, `b = (1, 0)` runs to full length without breakdown
(`NoBreakdown`), so `dense_gmres_exact` applies to it. -/
section exampleE49
def Ab3 : C11XB.BMat := ⟨2, #[0, 2, 5, 7], #[0, 1, 0, 1, 2, 1, 2],
  #[4, 1, 0, 4, -1, 0, 1, -1,  -1, 1, 0, -1, 5, 1, 1, 5, -1, 0, 2, -1,  0, -1, -1, 1, 4, 0, 1, 4]⟩
def S3 : N.Csr := ⟨3, #[0, 1, 3, 4], #[1, 0, 2, 1], #[]⟩
example : (C11XB.bairRow (1 / 1000000000000000) Ab3 S3 #[0, 1, 0] 1 1).isSome = true := by decide +kernel
example : (C11XB.bairRow (1 / 1000000000000000) Ab3 S3 #[0, 1, 0] 1 1).map (fun r => r.map (·.1)) = some [0, 2, 1] := by
  decide +kernel
/-- injection on BSR input: the block rows are identity blocks on the C-points -/
example : (C11XA.apiInjection (.bsr ⟨4, 4, 2, 2, #[0, 1, 2], #[0, 1], #[1, 0, 0, 1, 1, 0, 0, 1]⟩) #[0, 1]).ax
    = #[1, 0, 0, 1] := by decide +kernel

example : ∃ sqrt : ℝ → ℝ, (∀ a, 0 ≤ a → sqrt a * sqrt a = a) ∧ (∀ a, 0 ≤ sqrt a) :=
  ⟨Real.sqrt, fun _ h => Real.mul_self_sqrt h, Real.sqrt_nonneg⟩

open PyamgV.C07 PyamgV.C11XG in
noncomputable def Arot : Vector (Vector ℝ 2) 2 := #v[#v[0, -1], #v[1, 0]]
noncomputable def brot : Vector ℝ 2 := #v[1, 0]

open PyamgV.C07 PyamgV.C11XG in
theorem rot_step1 : arnVec Arot brot Real.sqrt (1 / 10 ^ 12) 1 1 = ⟨[#v[1, 0], #v[0, 1]], [[0, 1]], false, 2⟩ := by
  have tolneg : ¬ (1 : ℝ) < (10 ^ 12)⁻¹ := by norm_num
  simp [arnVec, vsdiv, iter, arnStep, orthO, vecOps, vmv, vdot, vdotN, smallK, Arot, brot, tolneg]

open PyamgV.C07 PyamgV.C11XG in
theorem rot_step2 : arnVec Arot brot Real.sqrt (1 / 10 ^ 12) 1 2 =
    ⟨[#v[1, 0], #v[0, 1]], [[0, 1], [-1, 0, 0]], true, 2⟩ := by
  have h : arnVec Arot brot Real.sqrt (1 / 10 ^ 12) 1 2 =
    arnStep (vecOps (fun a => a) Arot Arot) vsdiv Real.sqrt (smallK (1 / 10 ^ 12)) 2 brot
      (arnVec Arot brot Real.sqrt (1 / 10 ^ 12) 1 1) := rfl
  rw [h, rot_step1]
  simp [arnStep, vsdiv, orthO, vecOps, vmv, vdot, vdotN, smallK, Arot, brot]

open PyamgV.C07 PyamgV.C11XG in
/-- the hypotheses of `dense_gmres_exact` hold on a concrete system over the reals -/
theorem rot_no_breakdown : NoBreakdown Arot brot Real.sqrt (1 / 10 ^ 12) 0 false := by
  have hn : Real.sqrt (vdot (fun a => a) brot brot) = 1 := by simp [brot, vdot, vdotN]
  constructor
  · left; rfl
  · intro h; omega
  · intro _
    simp only [dgSystem, Bool.false_eq_true, if_false, hn]
    simp [smallK]; norm_num
  · intro _ k hk
    have : k = 0 := by omega
    subst this
    simp only [dgSystem, Bool.false_eq_true, if_false, hn]
    show (arnVec Arot brot Real.sqrt (1 / 10 ^ 12) 1 1).stop = false
    rw [rot_step1]
  · intro _ i hi
    simp only [dgSystem, Bool.false_eq_true, if_false, hn, rot_step2]
    have hi' : i = 0 ∨ i = 1 := by omega
    rcases hi' with rfl | rfl
    · simp [sweepOf, padCols, hent, givStep, isZ, rotL, List.range_succ, smallK]; norm_num
    · simp [sweepOf, padCols, hent, givStep, isZ, rotL, List.range_succ, smallK]; norm_num
end exampleE49

/-! ## the Python wrappers as the SOURCE has them (extension E58, Proofs/ExtPy3ClassicalInterp.lean)

`harness/py2lean3_classical.py` translates `direct_interpolation`, `classical_interpolation`,
`injection_interpolation` and `one_point_interpolation` of pyamg/classical/interpolate.py from the working tree into
`Generated/PyLogic3_classical.lean` on every run (sparse matrices opaque; every SciPy / NumPy operation and every native
kernel call is an event with the identities of its arguments).  The theorems below are about these GENERATED
definitions, evaluated by the kernel on finite grids of scenarios (`Model/ExtPy3ClassicalWorlds.lean`: A / C sparse or
not, csr / csc (/ bsr), theta None / 0.25, norm min / abs, modified, by_val, block size 1 / 2, conversion failing).
They tie the composition order of `Glue.apiClassical` / `apiDirect` (/ `...Theta`) to the source.  Partial: finite
grids; the sparse operations themselves are opaque here (they are modelled in Model/ExtGlue.lean). -/
/-- direct_interpolation: result / exception class and the whole trace -/
restate generated_direct_trace_partial := PyamgV.ExtPy3ClassicalP.direct_refines_spec
/-- classical_interpolation: result / exception class and the whole trace -/
restate generated_classical_trace_partial := PyamgV.ExtPy3ClassicalP.classical_refines_spec
/-- injection_interpolation: format dispatch, P from fresh NumPy arrays -/
restate generated_injection_trace_partial := PyamgV.ExtPy3ClassicalP.injection_refines_spec
/-- one_point_interpolation: the kernel reads A (by_val, CSR) or C, writes three fresh arrays -/
restate generated_one_point_trace_partial := PyamgV.ExtPy3ClassicalP.one_point_refines_spec
/-- classical_interpolation for ANY `splitting` value (universally quantified pass-through) on the grid -/
restate generated_classical_any_splitting_partial := PyamgV.ExtPy3ClassicalP.classical_any_splitting
/-- direct_interpolation for ANY `splitting` value on the grid -/
restate generated_direct_any_splitting_partial := PyamgV.ExtPy3ClassicalP.direct_any_splitting
/-- with theta given ANY `norm` string is handed on to classical_strength_of_connection unchanged -/
restate generated_classical_any_norm_partial := PyamgV.ExtPy3ClassicalP.classical_any_norm
/-- classical: copy -> eliminate_zeros -> remove_strong_FF_connections (modified only) -> eliminate_zeros -> multiply ->
pass 1 -> pass 2 (with theta: the recomputed strength matrix instead of copy + eliminate_zeros) -/
restate generated_classical_call_order_partial := PyamgV.ExtPy3ClassicalP.classical_call_order
/-- direct: copy | strength -> eliminate_zeros -> multiply -> pass 1 -> pass 2 -/
restate generated_direct_call_order_partial := PyamgV.ExtPy3ClassicalP.direct_call_order
/-- the arrays each kernel receives: the working copy (`Cc.indptr, Cc.indices, Cc.data` -- all three of the copy) for
`remove_strong_FF_connections`, the product `Cm` for the passes; pass 2 is told `modified` -/
restate generated_interp_kernel_calls_partial := PyamgV.ExtPy3ClassicalP.interp_kernel_calls
/-- no Python-level in-place operation targets `A`, `C` or `splitting` -/
restate generated_interp_arguments_untouched_partial := PyamgV.ExtPy3ClassicalP.interp_arguments_untouched
/-- no kernel receives an array of the caller's `C`; injection calls no kernel; one-point's outputs are fresh -/
restate generated_interp_kernels_private_partial := PyamgV.ExtPy3ClassicalP.interp_kernels_private
/-- invalid input raises `TypeError` before any kernel -/
restate generated_interp_invalid_raises_partial := PyamgV.ExtPy3ClassicalP.interp_invalid_raises

/-- non-vacuity: a valid modified scenario of the grid runs three kernels -/
example : (PyamgV.ExtPy3Classical.kernelCalls (PyamgV.ExtPy3ClassicalW.runClassical
    { spA := true, spC := true, fmtA := "csr", fmtC := "csr", theta := .none, norm := "min", modified := true }).2).length = 3 := by
  decide +kernel

end PyamgV.Props.C11
